----------------------------- MODULE BlockAlloc -----------------------------
(* Contract of container/bytes.Blocks (property C17), allocation part.       *)
(*                                                                            *)
(* Only API-observable values appear here: the set `alloc` of block indices   *)
(* that have been handed out by ArrangeBlock and not yet released by          *)
(* FreeBlock, and the number Count of blocks of the geometry.  Nothing is     *)
(* said about HOW a free block is found: ArrangeBlock may return ANY index    *)
(* that is not allocated.  (BlocksImpl.tla models the first-fit scan of the   *)
(* Go code; the index it picks is a prediction, never an oracle.)             *)
(*                                                                            *)
(* The single definition of the contract is the predicate                     *)
(*        Allowed(a, cnt, call, res)                                          *)
(* "in allocation state a of an allocator with cnt blocks, reply res is a     *)
(* permitted answer to call", together with After(a, call, res), the state    *)
(* after that reply.  They are used by                                        *)
(*   - Next below (the contract as a state machine, checked on its own),      *)
(*   - BlocksImpl.tla  (refinement  BlocksImpl => BlockAlloc),                *)
(*   - BlocksTrace.tla / BlocksLinTrace.tla (validation of recorded traces).  *)
(*                                                                            *)
(* What the property says, clause by clause:                                  *)
(*   "an index is never handed out while still allocated"                     *)
(*        Arrange may answer idx only if idx \notin a        (Allowed)        *)
(*        and, over the observable history alone,  NoDoubleHandout.           *)
(*   "ArrangeBlock fails with ErrExhausted exactly when nothing is free"      *)
(*        the exhausted reply is allowed iff a = 0..cnt-1, and it is the      *)
(*        ONLY reply allowed then.                                            *)
(*   "Available equals Count minus the blocks currently allocated"            *)
(*        Avail must answer cnt - Cardinality(a).                             *)
(*   FreeBlock(i): nil iff i \in a; ErrNotExist if i is a block of the        *)
(*        geometry but free; ErrInvalid if i is no block of the geometry.     *)
(*   "reopening the same bytes at any point reproduces exactly the set of     *)
(*    allocated blocks": Reopen leaves a unchanged and the reopened           *)
(*        allocator reports the same Count and Available.  (The conformance   *)
(*        harness additionally reopens a COPY of the bytes after every single *)
(*        operation and compares the copy's allocation set with `alloc`.)     *)
(*   Block(i) answers a byte range iff 0 <= i < cnt; disjointness of the      *)
(*        ranges is a layout fact, stated and checked in Geometry.tla.        *)
EXTENDS Integers, FiniteSets, Sequences, Emit

CONSTANTS Count      \* number of blocks of the geometry (segments * blkSize * 8)

VARIABLES alloc,     \* set of allocated block indices
          hist       \* call/reply history (not part of the VIEW)

AllOf(cnt) == 0 .. cnt - 1

\* ---- the contract ----------------------------------------------------------
\* call: [op |-> "Arrange"] | [op |-> "Free", i |-> n] | [op |-> "Avail"] |
\*       [op |-> "Count"] | [op |-> "Block", i |-> n] | [op |-> "Reopen"]
\* res : same op, the arguments echoed, and the reply fields err / idx / k.
Allowed(a, cnt, call, res) ==
    /\ res.op = call.op
    /\ CASE call.op = "Arrange" ->
              \/ /\ res.err = "nil"                 \* some free index, whichever
                 /\ res.idx \in AllOf(cnt) \ a
              \/ /\ res.err = "exhausted"           \* only when nothing is free
                 /\ a = AllOf(cnt)
         [] call.op = "Free" ->
              /\ res.i = call.i
              /\ res.err = IF call.i \in a THEN "nil"
                           ELSE IF call.i \in AllOf(cnt) THEN "notexist"
                           ELSE "invalid"
         [] call.op = "Avail" -> res.k = cnt - Cardinality(a)
         [] call.op = "Count" -> res.k = cnt
         [] call.op = "Block" ->
              /\ res.i = call.i
              /\ res.err = IF call.i \in AllOf(cnt) THEN "nil" ELSE "invalid"
         [] call.op = "Reopen" ->
              /\ res.k = cnt - Cardinality(a)       \* Available of the reopened allocator
              /\ res.cnt = cnt                      \* Count of the reopened allocator

After(a, call, res) ==
    CASE call.op = "Arrange" /\ res.err = "nil" -> a \cup {res.idx}
      [] call.op = "Free" /\ res.err = "nil"    -> a \ {call.i}
      [] OTHER                                  -> a

\* The call a reply answers (replies echo the arguments), and the step relation
\* "reply res takes allocation state a to a2" - the form used by the refinement
\* check of BlocksImpl and by the trace specs.
CallOf(res) == IF res.op \in {"Free", "Block"} THEN [op |-> res.op, i |-> res.i] ELSE [op |-> res.op]
StepOK(a, a2, cnt, res) ==
    /\ res.op \in {"Arrange", "Free", "Avail", "Count", "Block", "Reopen"}
    /\ Allowed(a, cnt, CallOf(res), res)
    /\ a2 = After(a, CallOf(res), res)

\* ---- the contract as a state machine ---------------------------------------
FreeErrs == {"nil", "notexist", "invalid"}

\* every syntactically possible reply to a call; Allowed selects the permitted ones
Candidates(cnt, call) ==
    CASE call.op = "Arrange" ->
              {[op |-> "Arrange", err |-> "nil", idx |-> i] : i \in AllOf(cnt)}
              \cup {[op |-> "Arrange", err |-> "exhausted"]}
      [] call.op = "Free"   -> {[op |-> "Free", i |-> call.i, err |-> e] : e \in FreeErrs}
      [] call.op = "Avail"  -> {[op |-> "Avail", k |-> k] : k \in 0 .. cnt}
      [] call.op = "Count"  -> {[op |-> "Count", k |-> cnt]}
      [] call.op = "Block"  -> {[op |-> "Block", i |-> call.i, err |-> e] : e \in {"nil", "invalid"}}
      [] call.op = "Reopen" -> {[op |-> "Reopen", k |-> k, cnt |-> cnt] : k \in 0 .. cnt}

Replies(a, cnt, call) == {r \in Candidates(cnt, call) : Allowed(a, cnt, call, r)}

Idx == -1 .. Count + 1          \* arguments of Free / Block: all blocks and both sides out of range

Calls == {[op |-> "Arrange"], [op |-> "Avail"], [op |-> "Count"], [op |-> "Reopen"]}
         \cup {[op |-> "Free", i |-> i] : i \in Idx}
         \cup {[op |-> "Block", i |-> i] : i \in Idx}

Init == alloc = {} /\ hist = <<>>

Do(call, res) == /\ alloc' = After(alloc, call, res)
                 /\ hist' = Append(hist, res)

Next == \E call \in Calls : \E res \in Replies(alloc, Count, call) : Do(call, res)

vars == <<alloc, hist>>
Spec == Init /\ [][Next]_vars

\* ---- the property over the observable history alone --------------------------
\* the set of indices handed out and not released, computed from replies only
RECURSIVE Held(_, _)
Held(h, n) ==
    IF n = 0 THEN {}
    ELSE LET r == h[n]
             p == Held(h, n - 1)
         IN  IF r.op = "Arrange" /\ r.err = "nil" THEN p \cup {r.idx}
             ELSE IF r.op = "Free" /\ r.err = "nil" THEN p \ {r.i}
             ELSE p

\* an index is never handed out while still allocated
NoDoubleHandout ==
    \A n \in 1 .. Len(hist) :
        (hist[n].op = "Arrange" /\ hist[n].err = "nil") => hist[n].idx \notin Held(hist, n - 1)

\* ErrExhausted exactly when nothing is free; every Available reply counts the held blocks
ExhaustedIffFull ==
    \A n \in 1 .. Len(hist) :
        /\ hist[n].op = "Arrange" => (hist[n].err = "exhausted" <=> Held(hist, n - 1) = AllOf(Count))
        /\ hist[n].op = "Avail"   => hist[n].k = Count - Cardinality(Held(hist, n - 1))
        /\ hist[n].op = "Reopen"  => hist[n].k = Count - Cardinality(Held(hist, n - 1))

TypeOK == alloc \subseteq AllOf(Count) /\ alloc = Held(hist, Len(hist))

\* bounded exploration of the contract on its own: histories up to MaxLen replies
CONSTANTS MaxLen
LenBound == Len(hist) <= MaxLen
View == <<alloc, hist>>
Emit == EmitHist(hist')
=============================================================================
