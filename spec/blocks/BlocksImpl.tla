----------------------------- MODULE BlocksImpl -----------------------------
(* Implementation-shaped model of container/bytes/blocks.go.                  *)
(*                                                                            *)
(* The Go code keeps ALL allocation state in the header block of each segment *)
(* (one bit per data block, bit j of header byte p of segment s stands for    *)
(* block s*B + p*8 + j, B = 8*blkSize) plus two volatile helpers that are     *)
(* rebuilt when the bytes are opened again:                                   *)
(*     freeIdx   - absolute byte offset into the buffer of the header byte    *)
(*                 where the search for a free block starts; lowered by       *)
(*                 FreeBlock, advanced by ArrangeBlock over header bytes that *)
(*                 are 0xFF, moved to the next segment's header at the end of *)
(*                 a header;                                                  *)
(*     available - counter of free blocks (initAvailabe recounts it on open). *)
(* The variables below are exactly those; each action is one API call, the    *)
(* loops of ArrangeBlock are transcribed iteration by iteration (Inner/Outer).*)
(*                                                                            *)
(* TLC checks: BlocksImpl => BlockAlloc (Refines: every reply, including the  *)
(* index picked by the first-fit scan, is one the contract allows), that the  *)
(* hint never skips a free block (HintSound - this is what makes              *)
(* "ErrExhausted exactly when nothing is free" true), that the counter equals *)
(* the number of clear bits (AvailOK), and emits one test per edge.           *)
(* The index this model predicts is NOT part of the contract: the replay      *)
(* adapter reports a different-but-free index as model drift, not as a        *)
(* violation.                                                                 *)
EXTENDS Integers, FiniteSets, Sequences, Emit

CONSTANTS BlkSize,    \* block size in bytes (1 or 2 in the exhaustive configs)
          Segments,   \* number of segments
          TailBytes,       \* extra bytes after the last segment (fit=false buffers); 0 = exact fit
          ArgMode     \* "all": Free/Block on every index -1..Count+1
                      \* "edge": Free on allocated indices and the boundary ones only

VARIABLES hdr,        \* hdr[s][p]: header byte p of segment s, 0..255
          freeIdx,    \* absolute byte offset (see above)
          available,  \* free-block counter
          hist

B        == BlkSize * 8                 \* bks.blksInSegm
SegBytes == (B + 1) * BlkSize           \* (blksInSegm+1)*blkSize
Count    == Segments * B
Size     == Segments * SegBytes + TailBytes

Pow2 == <<1, 2, 4, 8, 16, 32, 64, 128>>
Bit(v, j) == (v \div Pow2[j + 1]) % 2

\* lowest clear bit of a byte that is not 0xFF:  for j := 0; j < 8; j++ { if buf[pos]&(1<<j) == 0 {
LowestClear(v) == CHOOSE j \in 0 .. 7 : Bit(v, j) = 0 /\ \A k \in 0 .. j - 1 : Bit(v, k) = 1

\* ---- abstraction: the allocated set encoded by the header bits --------------
IsSet(h, i) == Bit(h[i \div B][(i % B) \div 8], i % 8) = 1
AllocOf(h) == {i \in 0 .. Count - 1 : IsSet(h, i)}
AbsAlloc == AllocOf(hdr)

\* initAvailabe: count the clear bits of every header
ClearBits(h) == Count - Cardinality(AllocOf(h))

Init == /\ hdr = [s \in 0 .. Segments - 1 |-> [p \in 0 .. BlkSize - 1 |-> 0]]
        /\ freeIdx = 0
        /\ available = Count
        /\ hist = <<>>

\* ---- ArrangeBlock ----------------------------------------------------------
\* inner loop:  for pos < len(buf) { if buf[pos] != 0xFF {...return}; pos++; bks.freeIdx++ }
\* result: <<found, segment, pos, freeIdx>>
RECURSIVE Inner(_, _, _)
Inner(seg, pos, fi) ==
    IF pos < BlkSize
    THEN IF hdr[seg][pos] # 255
         THEN <<TRUE, seg, pos, fi>>
         ELSE Inner(seg, pos + 1, fi + 1)
    ELSE <<FALSE, seg, pos, fi>>

\* outer loop:  for freeSegm < bks.segments { pos := freeIdx % blkSize; ...inner...;
\*                                            freeSegm++; freeIdx = freeSegm * segBytes }
RECURSIVE Outer(_, _)
Outer(seg, fi) ==
    IF seg < Segments
    THEN LET r == Inner(seg, fi % BlkSize, fi)
         IN  IF r[1] THEN r ELSE Outer(seg + 1, (seg + 1) * SegBytes)
    ELSE <<FALSE, seg, 0, fi>>

Arrange ==
    LET r == Outer(freeIdx \div SegBytes, freeIdx)
    IN  IF r[1]
        THEN LET seg == r[2]
                 pos == r[3]
                 j   == LowestClear(hdr[seg][pos])
             IN /\ hdr' = [hdr EXCEPT ![seg][pos] = @ + Pow2[j + 1]]     \* buf[pos] |= 1 << j
                /\ freeIdx' = r[4]
                /\ available' = available - 1
                /\ hist' = Append(hist, [op |-> "Arrange", err |-> "nil", idx |-> seg * B + pos * 8 + j])
        ELSE /\ hdr' = hdr
             /\ freeIdx' = r[4]
             /\ available' = available
             /\ hist' = Append(hist, [op |-> "Arrange", err |-> "exhausted"])

\* ---- FreeBlock -------------------------------------------------------------
Free(i) ==
    IF i < 0 \/ i \div B >= Segments                 \* getBlockIdxInHdr returns offs = -1
    THEN /\ UNCHANGED <<hdr, freeIdx, available>>
         /\ hist' = Append(hist, [op |-> "Free", i |-> i, err |-> "invalid"])
    ELSE LET seg  == i \div B
             offs == seg * SegBytes
             bidx == i % B
             fidx == bidx \div 8
             bit  == bidx % 8
         IN  IF Bit(hdr[seg][fidx], bit) = 0
             THEN /\ UNCHANGED <<hdr, freeIdx, available>>
                  /\ hist' = Append(hist, [op |-> "Free", i |-> i, err |-> "notexist"])
             ELSE /\ hdr' = [hdr EXCEPT ![seg][fidx] = @ - Pow2[bit + 1]]
                  /\ available' = available + 1
                  /\ freeIdx' = IF freeIdx > offs + fidx THEN offs + fidx ELSE freeIdx
                  /\ hist' = Append(hist, [op |-> "Free", i |-> i, err |-> "nil"])

\* ---- the read-only calls ---------------------------------------------------
Avail   == UNCHANGED <<hdr, freeIdx, available>> /\ hist' = Append(hist, [op |-> "Avail", k |-> available])
CountOp == UNCHANGED <<hdr, freeIdx, available>> /\ hist' = Append(hist, [op |-> "Count", k |-> Segments * B])
Block(i) ==
    /\ UNCHANGED <<hdr, freeIdx, available>>
    /\ hist' = Append(hist, [op |-> "Block", i |-> i,
                             err |-> IF i < 0 \/ i \div B >= Segments THEN "invalid" ELSE "nil"])

\* ---- NewBlocks on the same bytes: hint reset, counter recounted -------------
Reopen ==
    /\ hdr' = hdr
    /\ freeIdx' = 0
    /\ available' = ClearBits(hdr)
    /\ hist' = Append(hist, [op |-> "Reopen", k |-> ClearBits(hdr), cnt |-> Segments * B])

\* ---- which arguments are explored -------------------------------------------
FreeSet == (0 .. Count - 1) \ AbsAlloc
Lowest(S)  == CHOOSE x \in S : \A y \in S : x <= y
Highest(S) == CHOOSE x \in S : \A y \in S : x >= y
FreeArgs ==
    IF ArgMode = "all" THEN -1 .. Count + 1
    ELSE AbsAlloc \cup {-1, Count, Count + 1}
         \cup (IF FreeSet = {} THEN {} ELSE {Lowest(FreeSet), Highest(FreeSet)})
BlockArgs ==
    IF ArgMode = "all" THEN -1 .. Count + 1 ELSE {-1, 0, B - 1, B, Count - 1, Count}

Next == \/ Arrange
        \/ \E i \in FreeArgs : Free(i)
        \/ Avail \/ CountOp \/ Reopen
        \/ \E i \in BlockArgs : Block(i)

vars == <<hdr, freeIdx, available, hist>>
Spec == Init /\ [][Next]_vars

\* ---- refinement ------------------------------------------------------------
Abs == INSTANCE BlockAlloc WITH alloc <- AbsAlloc, Count <- Count, MaxLen <- 0
Refines == Abs!Spec          \* checked literally on the smallest geometry
\* The same statement in the form TLC evaluates fast (one evaluation of the
\* abstraction per step instead of one per candidate reply): every step appends
\* one reply, and that reply takes the abstract state before to the abstract
\* state after according to BlockAlloc!StepOK.
RefinesStep ==
    [][ /\ Len(hist') = Len(hist) + 1
        /\ LET a  == AbsAlloc
               a2 == AbsAlloc'
           IN  Abs!StepOK(a, a2, Count, hist'[Len(hist')]) ]_vars

\* The same condition once more as an assertion evaluated on every generated
\* transition (ACTION_CONSTRAINT RefAssert): TLC's check of a PROPERTY costs about
\* four times as much per transition, so the larger configurations use this
\* form; a failing assertion stops TLC with an error just like a violated property.
RefAssert ==
    Assert(LET a  == AbsAlloc
               a2 == AbsAlloc'
           IN  Len(hist') = Len(hist) + 1 /\ Abs!StepOK(a, a2, Count, hist'[Len(hist')]),
           "refinement step BlocksImpl => BlockAlloc violated")

\* ---- invariants of the algorithm ---------------------------------------------
HdrStart(s) == s * SegBytes
\* the hint is a header byte position, or the end of the last segment
HintInHeader ==
    \/ freeIdx = Segments * SegBytes
    \/ \E s \in 0 .. Segments - 1 : freeIdx >= HdrStart(s) /\ freeIdx < HdrStart(s) + BlkSize
\* no free block lies before the hint: first-fit from the hint finds a block iff one exists
HintSound ==
    \A s \in 0 .. Segments - 1 : \A p \in 0 .. BlkSize - 1 :
        HdrStart(s) + p < freeIdx => hdr[s][p] = 255
AvailOK == available = ClearBits(hdr)
TypeOK  == /\ \A s \in 0 .. Segments - 1 : \A p \in 0 .. BlkSize - 1 : hdr[s][p] \in 0 .. 255
           /\ available \in 0 .. Count

\* ---- bounded configurations for the larger geometries -----------------------
\* Explore only allocation sets with at most MaxHoles free blocks below the
\* highest allocated one (prefixes with a few holes): reaches every position
\* of the hint, every segment boundary and every full/non-full header byte
\* without enumerating all 2^Count sets.
CONSTANTS MaxHoles
Holes == IF AbsAlloc = {} THEN {} ELSE {i \in 0 .. Highest(AbsAlloc) : i \notin AbsAlloc}
FewHoles == Cardinality(Holes) <= MaxHoles

View == <<hdr, freeIdx, available>>
\* the first record of every emitted behaviour describes the geometry to construct
NewRec == [op |-> "New", bs |-> BlkSize, size |-> Size, fit |-> (TailBytes = 0), err |-> "nil",
           segs |-> Segments, cnt |-> Count]
Emit == EmitHist(<<NewRec>> \o hist')
=============================================================================
