---------------------------- MODULE BlocksLinTrace ----------------------------
(* Trace validation for C17, concurrent histories: linearizability against    *)
(* the BlockAlloc contract.                                                    *)
(*                                                                             *)
(* G goroutines call ArrangeBlock / FreeBlock / Available on one real          *)
(* bytes.Blocks.  The harness takes a global sequence number immediately       *)
(* before each call (inv) and immediately after it returned (res) and writes   *)
(* the events in that order.  An inv line already carries the reply the call   *)
(* eventually got (the file is written after the run), so the search below     *)
(* never has to guess a reply:                                                 *)
(*   new   cnt                    fresh allocator, nothing allocated            *)
(*   inv   id op [i] err [idx] [k]                                              *)
(*   res   id                                                                   *)
(*   quiet avail sn snap bad      all goroutines joined: Available(), and the   *)
(*                                allocation set of a reopened copy             *)
(* A history is accepted iff every call can be given a linearization point     *)
(* between its inv and its res such that, taken in that order, every reply is  *)
(* allowed by BlockAlloc!Allowed: in particular an index returned by Arrange   *)
(* must be free at that point, ErrExhausted needs everything allocated at that *)
(* point, and Available must equal Count - |alloc| at that point.              *)
(*                                                                             *)
(* Lin(o) is the silent step.  Linearization points may always be moved later  *)
(* up to just before the next response event without changing their order, so  *)
(* Lin is only enabled when the next event to consume is a res.                *)
(* Acceptance: high-water mark of the cursor (TraceLib), -workers 1.           *)
EXTENDS TraceLib, FiniteSets

VARIABLES alloc, cnt,
          pend,    \* invoked, not yet linearized: set of inv records
          done,    \* ids linearized, response not yet consumed
          l

BA == INSTANCE BlockAlloc WITH Count <- 0, MaxLen <- 0, hist <- <<>>

Ev == Trace[l]
ToSet(s) == {s[i] : i \in 1 .. Len(s)}
More == l <= Len(Trace)

Init == alloc = {} /\ cnt = 0 /\ pend = {} /\ done = {} /\ l = 1 /\ HighWaterInit

New == /\ More /\ Ev.e = "new"
       /\ pend = {} /\ done = {}
       /\ alloc' = {} /\ cnt' = Ev.cnt
       /\ UNCHANGED <<pend, done>> /\ l' = l + 1

Inv == /\ More /\ Ev.e = "inv"
       /\ pend' = pend \cup {Ev}
       /\ UNCHANGED <<alloc, cnt, done>> /\ l' = l + 1

Lin(o) == /\ More /\ Ev.e = "res"
          /\ LET a2 == BA!After(alloc, BA!CallOf(o), o)
             IN BA!StepOK(alloc, a2, cnt, o) /\ alloc' = a2
          /\ pend' = pend \ {o}
          /\ done' = done \cup {o.id}
          /\ UNCHANGED <<cnt, l>>

Res == /\ More /\ Ev.e = "res"
       /\ Ev.id \in done
       /\ done' = done \ {Ev.id}
       /\ UNCHANGED <<alloc, cnt, pend>> /\ l' = l + 1

\* quiescent point: nothing in flight; the bytes show exactly the abstract state
Quiet == /\ More /\ Ev.e = "quiet"
         /\ pend = {} /\ done = {}
         /\ Ev.avail = cnt - Cardinality(alloc)
         /\ Ev.sn = Cardinality(alloc)
         /\ ToSet(Ev.snap) = alloc
         /\ Ev.bad = 0
         /\ UNCHANGED <<alloc, cnt, pend, done>> /\ l' = l + 1

Next == New \/ Inv \/ Res \/ Quiet \/ \E o \in pend : Lin(o)
Spec == Init /\ [][Next]_<<alloc, cnt, pend, done, l>>

Progress == HighWater(l)          \* CONSTRAINT: records the furthest line reached
Accepted == AcceptByHighWater     \* POSTCONDITION
=============================================================================
