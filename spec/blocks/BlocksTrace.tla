----------------------------- MODULE BlocksTrace -----------------------------
(* Trace validation for C17, sequential histories (code -> spec).            *)
(*                                                                            *)
(* The harness drives a real bytes.Blocks with long seeded random call        *)
(* sequences on realistic geometries (block sizes 16..4096, several segments, *)
(* in-memory and memory-mapped buffers) and logs one line per call:           *)
(*   New     bs size fit page err segs cnt avail   - NewBlocks on zeroed bytes *)
(*   Arrange err [idx] | Free i err | Avail k | Count k | Block i err          *)
(*   Reopen  k cnt                                 - NewBlocks on the SAME bytes*)
(* and with every line what a SECOND allocator, opened on a copy of the bytes  *)
(* taken right after the call, reports:                                        *)
(*   savail  Available() of the copy                                           *)
(*   sn      number of indices i for which FreeBlock(i) on the copy succeeded  *)
(*   snap    those indices (only logged when Count is small)                   *)
(*   bad     number of harness-side byte checks that failed after this call    *)
(*           (block pattern damaged, allocator wrote into a block, ...)        *)
(* A line is consumed only if the reply is allowed by BlockAlloc!Allowed in    *)
(* the current abstract state and the copy shows exactly the abstract state    *)
(* after the call.  Which free index Arrange returned is not constrained.      *)
(* New lines are judged by Geometry!Valid.                                     *)
EXTENDS TraceLib, FiniteSets

VARIABLES alloc,   \* abstract allocation set
          cnt,     \* Count of the current allocator (0: none / constructor refused)
          l        \* cursor into the trace

BA  == INSTANCE BlockAlloc WITH Count <- 0, MaxLen <- 0, hist <- <<>>
Geo == INSTANCE Geometry WITH Page <- 0, MaxSize <- 0, hist <- <<>>,
                              cur <- [bs |-> 0, size |-> 0, fit |-> FALSE]

Ev == Trace[l]
ToSet(s) == {s[i] : i \in 1 .. Len(s)}

Init == alloc = {} /\ cnt = 0 /\ l = 1

\* the constructor contract (Geometry.tla) on the logged geometry
New == /\ l <= Len(Trace) /\ Ev.op = "New"
       /\ ~Has(Ev, "crash")
       /\ IF Geo!Valid(Ev.bs, Ev.size, Ev.fit, Ev.page)
          THEN /\ Ev.err = "nil"
               /\ Ev.segs = Geo!Segments(Ev.bs, Ev.size)
               /\ Ev.cnt = Geo!Count(Ev.bs, Ev.size)
               /\ Ev.avail = Ev.cnt                    \* zeroed bytes: everything free
               /\ cnt' = Ev.cnt
          ELSE /\ Ev.err = "invalid"
               /\ cnt' = 0
       /\ alloc' = {}
       /\ l' = l + 1

Call == /\ l <= Len(Trace) /\ Ev.op \notin {"New", "Grow", "Window"}
        /\ ~Has(Ev, "crash")
        /\ LET a2 == BA!After(alloc, BA!CallOf(Ev), Ev)
           IN /\ BA!StepOK(alloc, a2, cnt, Ev)          \* the reply is allowed by the contract
              /\ Ev.bad = 0                             \* bytes of blocks / bookkeeping intact
              /\ Has(Ev, "savail") =>                   \* a second allocator on a copy of the
                    /\ Ev.savail = cnt - Cardinality(a2) \* bytes sees exactly the abstract state
                    /\ Ev.sn = Cardinality(a2)          \* (sampled lines only on huge buffers)
              /\ Has(Ev, "snap") => ToSet(Ev.snap) = a2
              /\ alloc' = a2
        /\ cnt' = cnt /\ l' = l + 1

\* Scenarios around the UNDERLYING buffer, recorded as one summary line each:
\*  Grow     blocks were arranged/freed through one Blocks object before AND after its buffer was grown; a second
\*           allocator opened on the grown bytes must see exactly the blocks handed out and not freed (want) and
\*           Available = Count - |those|: the allocation state lives in the bytes, not in the object; the live
\*           object's own accounting still adds up (whatever it makes of the grown buffer, its Available is its
\*           Count minus the blocks it has handed out), and it never handed out an index twice (dup);
\*           in the "-full" variants it was exhausted before its buffer grew by whole segments;
\*  Window   a memory-mapped file was opened once through a window SHORTER than the file and closed again; the
\*           file keeps its length and an allocator opened on the whole file afterwards still sees every block.
\*  Bulk     n blocks (more than 8 * page) were arranged in a fresh one-segment allocator whose block size is three
\*           pages: every call succeeded with a new index (errs = dups = 0), Available = Count - n; then `freed`
\*           of them were released once (a second release failed: refree = 0), Available followed, and a second
\*           allocator over the same bytes reports that Available and exactly the blocks still held (mismatch = 0).
Bulk == /\ l <= Len(Trace) /\ Ev.op = "Bulk"
        /\ ~Has(Ev, "crash")
        /\ ~Ev.skipped => /\ Ev.errs = 0 /\ Ev.dups = 0 /\ Ev.refree = 0 /\ Ev.mismatch = 0
                          /\ Ev.n <= Ev.count
                          /\ Ev.avail = Ev.count - Ev.n
                          /\ Ev.avail2 = Ev.count - Ev.n + Ev.freed
                          /\ Ev.reopen_avail = Ev.avail2
        /\ UNCHANGED <<alloc, cnt>> /\ l' = l + 1

Scenario == /\ l <= Len(Trace) /\ Ev.op \in {"Grow", "Window"}
            /\ ~Has(Ev, "crash")
            /\ ToSet(Ev.got) = ToSet(Ev.want)
            /\ Ev.avail = Ev.count - Cardinality(ToSet(Ev.want))
            /\ Ev.op = "Window" => Ev.filelen = Ev.wantlen
            /\ Ev.op = "Grow" => (~Ev.dup /\ Ev.live_avail = Ev.live_count - Cardinality(ToSet(Ev.want)))
            /\ UNCHANGED <<alloc, cnt>> /\ l' = l + 1

Next == New \/ Call \/ Scenario \/ Bulk
Spec == Init /\ [][Next]_<<alloc, cnt, l>>
Accepted == AcceptByDiameter
=============================================================================
