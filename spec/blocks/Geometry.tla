------------------------------ MODULE Geometry ------------------------------
(* Geometry of container/bytes.Blocks (property C17): which (block size,     *)
(* buffer size, fit) triples the constructor must accept, how many segments  *)
(* and blocks an accepted geometry has, and where the bytes of a block live.  *)
(*                                                                            *)
(* Two things are written down independently and TLC checks that they agree   *)
(* for every case of the bound:                                               *)
(*   Valid(bs, size, fit, page)  - the rule as the doc comments state it:     *)
(*        "blkSize ... if less than [the page size] should multiply on an     *)
(*         integer to get [the page size]; if equal or greater, it should be  *)
(*         divided on [it] with the reminder 0";  "should be at least one     *)
(*         segment";  "fit - the bts.Size() must match exactly";              *)
(*   CodeAccepts(bs, size, fit, page) - GetBlocksInSegment / NewBlocks as     *)
(*        written in blocks.go (power-of-two test, blksInSegm < 0, the size   *)
(*        tests), statement by statement.                                     *)
(* The constructor contract: NewBlocks returns ErrInvalid exactly when        *)
(* ~Valid, never panics, and for a valid geometry yields an allocator with    *)
(* Segments(bs,size) segments and Count(bs,size) blocks, all free on a zeroed *)
(* buffer.                                                                     *)
(*                                                                            *)
(* Layout (LayoutOK): with the offset formulas of the code,                   *)
(*        header of segment s :  [ s*(B+1)*bs , +bs )          B = 8*bs       *)
(*        block  i            :  [ (i + i \div B + 1)*bs , +bs )              *)
(* the ranges of distinct blocks are pairwise disjoint, disjoint from every   *)
(* header range, and inside the buffer.  TLC evaluates this for every         *)
(* accepted geometry of the bound (it is a fact about arithmetic, so it is    *)
(* checked on the real sizes: block sizes up to two pages, up to 3 segments). *)
(* The conformance harness checks the same facts on the real slices returned  *)
(* by Block(i) without assuming these formulas.                               *)
EXTENDS Integers, FiniteSets, Sequences, Emit

CONSTANTS Page,       \* os.Getpagesize() of the machine the check runs on (probed by the harness)
          MaxSize     \* cases with a larger buffer are left out (32-bit TLC integers, harness memory)

\* ---- geometry arithmetic ---------------------------------------------------
BlksInSeg(bs)   == bs * 8                   \* data blocks per segment
SegBytes(bs)    == (BlksInSeg(bs) + 1) * bs \* header block + data blocks
Segments(bs, size) == size \div SegBytes(bs)
Count(bs, size)    == Segments(bs, size) * BlksInSeg(bs)

\* ---- the rule as documented ------------------------------------------------
BlockSizeOK(bs, page) ==
    /\ bs > 0
    /\ bs < page  => \E k \in 1 .. page : bs * k = page
    /\ bs >= page => bs % page = 0

Valid(bs, size, fit, page) ==
    /\ BlockSizeOK(bs, page)
    /\ size >= SegBytes(bs)                 \* at least one segment
    /\ fit => size % SegBytes(bs) = 0       \* exact fit requested

\* ---- the rule as coded (blocks.go) -------------------------------------------
RECURSIVE IsPow2(_)
IsPow2(n) == IF n = 1 THEN TRUE ELSE IF n % 2 = 1 THEN FALSE ELSE IsPow2(n \div 2)

\* GetBlocksInSegment: -1 for an unacceptable block size, else blocks incl. header
GetBlocksInSegment(bs, page) ==
    IF bs <= 0 THEN -1
    ELSE IF bs < page
         THEN (IF IsPow2(bs) THEN bs * 8 + 1 ELSE -1)      \* blkSize&(blkSize-1) != 0
         ELSE (IF bs % page # 0 THEN -1 ELSE bs * 8 + 1)

CodeAccepts(bs, size, fit, page) ==
    LET n == GetBlocksInSegment(bs, page)
    IN  IF n < 0 THEN FALSE
        ELSE LET segm == n * bs
             IN ~ (size < segm \/ (fit /\ size % segm # 0))

\* ---- layout ---------------------------------------------------------------
HdrOff(bs, s)  == s * (BlksInSeg(bs) + 1) * bs
DataOff(bs, i) == (i + (i \div BlksInSeg(bs)) + 1) * bs

\* Taken in index order the ranges must follow each other without overlap, with
\* the header of a segment in front of the segment's first block and the next
\* header behind its last block; everything inside the buffer.  (Ordered and
\* non-overlapping neighbours = pairwise disjoint.)
LayoutOK(bs, size) ==
    LET segs == Segments(bs, size)
        cnt  == Count(bs, size)
        B    == BlksInSeg(bs)
    IN  /\ \A i \in 0 .. cnt - 2 : DataOff(bs, i) + bs <= DataOff(bs, i + 1)
        /\ \A s \in 0 .. segs - 1 :
              /\ HdrOff(bs, s) >= 0
              /\ HdrOff(bs, s) + bs <= DataOff(bs, s * B)               \* header before its first block
              /\ s > 0 => DataOff(bs, s * B - 1) + bs <= HdrOff(bs, s)  \* previous segment's last block before it
        /\ cnt > 0 => DataOff(bs, cnt - 1) + bs <= size                 \* last block inside the buffer

\* the same, as plain interval arithmetic, for tiny geometries (no alignment argument)
Overlap(o1, o2, len) == o1 < o2 + len /\ o2 < o1 + len
LayoutOKPairwise(bs, size) ==
    LET segs == Segments(bs, size)
        cnt  == Count(bs, size)
    IN  /\ \A i, j \in 0 .. cnt - 1 : i # j => ~Overlap(DataOff(bs, i), DataOff(bs, j), bs)
        /\ \A i \in 0 .. cnt - 1 : \A s \in 0 .. segs - 1 : ~Overlap(DataOff(bs, i), HdrOff(bs, s), bs)

\* ---- the cases of the bound --------------------------------------------------
\* block sizes: -2..17 and around the page size; buffer sizes around k segments
BlockSizes == (-2 .. 17) \cup {32, 64, Page \div 2, Page - 1, Page, Page + 1, (3 * Page) \div 2, 2 * Page}
Abs(n) == IF n < 0 THEN -n ELSE n
Max(a, b) == IF a > b THEN a ELSE b
\* the formula is used for invalid block sizes too (with |bs|), plus a few fixed sizes
SizesFor(bs) ==
    LET sb == SegBytes(Abs(bs))
    IN  {s \in {k * sb + d : k \in 0 .. 3, d \in {-1, 0, 1}} \cup {0, 1, 9, 10, Page, 2 * Page, 65536}
           : s >= 0 /\ s <= MaxSize}

Cases == UNION {{[bs |-> bs, size |-> size, fit |-> fit] : size \in SizesFor(bs), fit \in BOOLEAN} : bs \in BlockSizes}

\* the reply the constructor contract prescribes for one case
NewReply(c) ==
    IF Valid(c.bs, c.size, c.fit, Page)
    THEN [op |-> "New", bs |-> c.bs, size |-> c.size, fit |-> c.fit, err |-> "nil",
          segs |-> Segments(c.bs, c.size), cnt |-> Count(c.bs, c.size)]
    ELSE [op |-> "New", bs |-> c.bs, size |-> c.size, fit |-> c.fit, err |-> "invalid",
          segs |-> 0, cnt |-> 0]

\* ---- a one-step state machine: pick a case, emit its test -------------------
VARIABLES cur, hist
None == [bs |-> 0, size |-> 0, fit |-> FALSE]
Init == cur = None /\ hist = <<>>
Pick(c) == hist = <<>> /\ cur' = c /\ hist' = <<NewReply(c)>>
Next == \E c \in Cases : Pick(c)
Spec == Init /\ [][Next]_<<cur, hist>>

\* documented rule and coded rule agree on every case
RulesAgree == hist # <<>> => (Valid(cur.bs, cur.size, cur.fit, Page) <=> CodeAccepts(cur.bs, cur.size, cur.fit, Page))
\* every accepted geometry has a sound layout
AcceptedLayoutOK ==
    (hist # <<>> /\ Valid(cur.bs, cur.size, cur.fit, Page)) =>
        /\ LayoutOK(cur.bs, cur.size)
        /\ Segments(cur.bs, cur.size) >= 1
        /\ Count(cur.bs, cur.size) <= 64 => LayoutOKPairwise(cur.bs, cur.size)
View == cur
Emit == EmitHist(hist')
=============================================================================
