------------------------------- MODULE Emit -------------------------------
(* Behaviour emission: every transition TLC generates appends one line     *)
(* (ToJson of the history after the step) to the file named by the         *)
(* environment variable VERIF_EMIT.  Used from an ACTION_CONSTRAINT, which *)
(* TLC evaluates on every generated successor before duplicate detection,  *)
(* so the file holds one shortest-path test per EDGE of the state graph.   *)
(* Without VERIF_EMIT the operator is just TRUE.                            *)
EXTENDS TLC, Json, CSV, IOUtils, Sequences

EmitEnabled == "VERIF_EMIT" \in DOMAIN IOEnv

EmitHist(h) ==
    IF EmitEnabled
    THEN CSVWrite("%1$s", <<ToJson(h)>>, IOEnv.VERIF_EMIT)
    ELSE TRUE
=============================================================================
