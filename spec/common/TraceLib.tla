------------------------------ MODULE TraceLib ------------------------------
(* Reading an ndjson trace recorded from the real code (code -> spec         *)
(* direction).  The file name comes from the environment variable            *)
(* VERIF_TRACE.  Two acceptance styles:                                      *)
(*  - deterministic trace specs: one state per consumed line, accepted iff   *)
(*    the diameter of the search equals Len(Trace)+1  (AcceptByDiameter);    *)
(*  - trace specs with silent steps: a high-water mark of the cursor is kept *)
(*    in TLC register 1 by a CONSTRAINT (HighWater(l)) and the trace is      *)
(*    accepted iff it reached Len(Trace)+1 (AcceptByHighWater); -workers 1.  *)
EXTENDS TLC, Json, IOUtils, Sequences, Integers

Trace == ndJsonDeserialize(IOEnv.VERIF_TRACE)

Has(rec, f) == f \in DOMAIN rec

AcceptByDiameter ==
    IF TLCGet("stats").diameter = Len(Trace) + 1
    THEN TRUE
    ELSE /\ PrintT(<<"TRACE-REJECTED-AT-LINE", TLCGet("stats").diameter>>)
         /\ FALSE

HighWaterInit == TLCSet(1, 0)
HighWater(l) == IF l > TLCGet(1) THEN TLCSet(1, l) ELSE TRUE
AcceptByHighWater ==
    IF TLCGet(1) = Len(Trace) + 1
    THEN TRUE
    ELSE /\ PrintT(<<"TRACE-REJECTED-AT-LINE", TLCGet(1)>>)
         /\ FALSE
=============================================================================
