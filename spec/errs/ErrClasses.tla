----------------------------- MODULE ErrClasses -----------------------------
(* Property C19: error classes survive wrapping and the gRPC boundary.        *)
(* (github.com/acquirecloud/golibs/errors: errors.go, grpc.go)                 *)
(*                                                                              *)
(* Two levels live in this module.                                             *)
(*                                                                              *)
(* CONTRACT  (operators Coded, HasCode, Required, CodeRequired, Req..).  What   *)
(*   the property says about the observable results of Is, ExtractObject,      *)
(*   FromGRPCError and a second GRPCWrap.  It mentions no table and no code    *)
(*   number: for a class that has a gRPC code, GRPCWrap(err) IS that class,    *)
(*   IS no other class, wrapping it again changes nothing, an embedded object  *)
(*   can still be extracted; a non-OK code never maps back to nil and always   *)
(*   to one class.  Only this level is an oracle for the real code.            *)
(*                                                                              *)
(* MODEL  (operators with suffix M, and the actions).  The Go functions,       *)
(*   transcribed: GRPCStatusCode looks the class up in a table class -> code,  *)
(*   FromGRPCError looks the code up in a table code -> class, Is falls back   *)
(*   on FromGRPCError, GRPCWrap returns a status error unchanged and keeps     *)
(*   the message text.  The two tables are CONSTANTS.  They are not typed in   *)
(*   by hand: `vh drive errs-probe` asks the compiled library                  *)
(*   (GRPCStatusCode(class) for the twelve classes,                            *)
(*   FromGRPCError(status.Error(code, ..)) for the seventeen codes) and writes *)
(*   the module ErrTables.tla; ErrMC.tla substitutes them.                     *)
(*                                                                              *)
(* TLC checks, over the whole cross product  class x depth 0..MaxDepth x       *)
(* (no object | object embedded below layer 0..depth) x message id, that the   *)
(* model with the REAL tables satisfies the contract (invariants Contract,     *)
(* RoundTrip, NeverNil, WrappedIsStable).  If somebody edits one table and not *)
(* the other, this fails on data taken from the code.  Such a failure is a     *)
(* finding about the tables, not yet a verdict: the same TLC run emits one     *)
(* behaviour per edge of the state graph, each step carrying the record `req`  *)
(* (what the contract requires of the value after the step) and `model` (what  *)
(* the model predicts); harness/cmd/vh/errs.go rebuilds every value with the   *)
(* real fmt.Errorf("%w"), EmbedObject, GRPCWrap and compares the real results  *)
(* with `req` (mismatch = VIOLATION) and with `model` (mismatch = drift).      *)
EXTENDS Integers, Sequences, FiniteSets, Emit

CONSTANTS
    ClassToCode,    \* [Class -> Code]       GRPCStatusCode(class), probed
    CodeToClass,    \* [Code -> Class \cup {"nil", "Other"}]   FromGRPCError(status error with the code), probed
    FallbackCode,   \* GRPCStatusCode of an error that is of no class, probed (codes.Internal today)
    Msgs,           \* message ids; the texts live in the harness (errsTexts)
    MaxDepth        \* number of fmt.Errorf("%w") layers, 0..MaxDepth

VARIABLES e,        \* the error value under construction (record below) or Null
          hist      \* the steps so far, each with req / model; NOT in the VIEW

\* ---- the vocabulary ---------------------------------------------------------
\* The general error classes declared in errors.go (names without the Err prefix).
Class == {"Exist", "NotExist", "Closed", "Invalid", "NotAuthorized", "DataLoss",
          "Communication", "Internal", "Conflict", "Exhausted", "Unimplemented", "Canceled"}

\* google.golang.org/grpc/codes: OK=0 Canceled=1 Unknown=2 InvalidArgument=3 DeadlineExceeded=4
\* NotFound=5 AlreadyExists=6 PermissionDenied=7 ResourceExhausted=8 FailedPrecondition=9
\* Aborted=10 OutOfRange=11 Unimplemented=12 Internal=13 Unavailable=14 DataLoss=15 Unauthenticated=16
Code    == 0 .. 16
OK      == 0
Unknown == 2    \* status.Code(err) of every error that is not a gRPC status error

\* "nil": FromGRPCError returned nil.  "Other": it returned a non-nil error that is none of
\* the twelve sentinels (a class added after this specification was written).
ClassOrNil == Class \cup {"nil", "Other"}

\* ---- CONTRACT ---------------------------------------------------------------
\* "every general error class that has a gRPC code".  errorsToCode lists ten of the twelve
\* classes; ErrClosed and ErrCommunication have no code of their own (GRPCStatusCode gives them
\* the fallback code, and the fallback code maps back to ErrInternal), so the property says
\* nothing about them -- although two codes (Unknown, DeadlineExceeded) map TO ErrCommunication.
\* A class also counts as having a code when the probed table gives it any code other than the
\* fallback code (a code added for it later is covered without touching this file).
Coded == Class \ {"Closed", "Communication"}
HasCode(k) == k \in Coded \/ ClassToCode[k] # FallbackCode

\* obs is what is observed of w = GRPCWrap(err), err being any chain of %w layers and at most
\* one embedded object around the sentinel of class k:
\*   obs.is      = {c \in Class : Is(w, c)}
\*   obs.same    = GRPCWrap(w) is observably w again
\*   obs.extract = ExtractObject(w, &o) succeeded and o is the embedded object
Required(k, embedded, obs) ==
    HasCode(k) => /\ k \in obs.is                   \* Is(GRPCWrap(err), class) is true
                  /\ obs.is \subseteq {k}           \* Is(GRPCWrap(err), other) is false
                  /\ obs.same                       \* GRPCWrap is idempotent
                  /\ (embedded => obs.extract)      \* the object is still extractable

\* cls = FromGRPCError(a status error with code c); is = {k \in Class : Is(that error, k)}
CodeRequired(c, cls, is) ==
    /\ c # OK => cls # "nil"                        \* never nil for a non-OK code
    /\ Cardinality(is) <= 1                         \* exactly one class (with cls # "nil") ...
    /\ c # OK => is = {cls}                         \* ... and Is() names the very class FromGRPCError reports

\* The same requirements as records sent to the replayer (a field is present only where the
\* property requires something; see errsCheckReq in errs.go).
ReqWrapped(k, embedded, second) ==
    IF embedded THEN [is |-> {k}, same |-> TRUE, second |-> second, extract |-> TRUE]
                ELSE [is |-> {k}, same |-> TRUE, second |-> second]
ReqCode(c) == [nonnil |-> c # OK, one |-> c # OK, from |-> CodeToClass[c]]

\* ---- MODEL: error values ----------------------------------------------------
\* class : the sentinel at the bottom of the chain; "none" for a status error that came from
\*         elsewhere (action Foreign)
\* depth : number of fmt.Errorf("%w") layers
\* emb   : -1 no embedded object, else the number of %w layers that were on when EmbedObject was
\*         called (layers added later sit outside the marker-delimited JSON)
\* grpc  : the value is a gRPC status error
\* code  : status.Code(value): Unknown for every non-status error
\* rw    : how many times the text "rpc error: code = .. desc = " got INTO the message, i.e. how
\*         often GRPCWrap wrapped a value that already was a status error (0 if GRPCWrap is idempotent)
\* msg   : message id; the harness derives the text of every layer and of the object from it
Null == [class |-> "null"]
Embedded(v) == v.emb >= 0

Value == [class : Class \cup {"none"}, depth : 0 .. MaxDepth, emb : -1 .. MaxDepth,
          grpc : BOOLEAN, code : Code, rw : 0 .. 2, msg : Msgs]

\* errors.go / grpc.go, function by function -----------------------------------
\* GRPCStatusCode: the status code if there is one; else the table entry of the class the chain
\* IS (errorsToCode[err] at depth 0, the errors.Is loop above); else the fallback.
GRPCStatusCodeM(v) ==
    IF v.code # Unknown THEN v.code
    ELSE IF v.grpc \/ v.class = "none" THEN FallbackCode
    ELSE ClassToCode[v.class]

\* GRPCWrap: a status error is returned as is; anything else becomes
\* status.Error(GRPCStatusCode(err), err.Error()) -- the text, and with it the embedded object, is kept.
\* (status.Code is Unknown also for a status error that carries codes.Unknown: that one is wrapped again.)
GRPCWrapM(v) ==
    IF v.code # Unknown THEN v
    ELSE [v EXCEPT !.grpc = TRUE, !.code = GRPCStatusCodeM(v), !.rw = IF v.grpc THEN @ + 1 ELSE @]

\* FromGRPCError: the class of the status code (grpcToErrors, default ErrInternal).
FromM(v) == CodeToClass[v.code]

\* Is: errors.Is on the chain (a status error wraps nothing), or the class of the status code.
\* Note the consequence for plain errors: status.Code is Unknown, so every plain error also IS the
\* class of codes.Unknown.  The property does not speak about values before GRPCWrap.
IsM(v, c) == (~v.grpc /\ c = v.class) \/ FromM(v) = c

\* ExtractObject: the text holds exactly two markers iff an object was embedded (texts never contain the marker).
ExtractM(v) == Embedded(v)

ObsM(v) == [is |-> {c \in Class : IsM(v, c)}, same |-> GRPCWrapM(v) = v, extract |-> ExtractM(v)]
ModelRec(v) == [code |-> GRPCStatusCodeM(v), from |-> FromM(v), is |-> {c \in Class : IsM(v, c)}, extract |-> ExtractM(v)]

\* ---- actions ----------------------------------------------------------------
Init == e = Null /\ hist = <<>>

\* the sentinel of class k
New(k, m) ==
    /\ e = Null
    /\ e' = [class |-> k, depth |-> 0, emb |-> -1, grpc |-> FALSE, code |-> Unknown, rw |-> 0, msg |-> m]
    /\ hist' = <<[op |-> "New", class |-> k, msg |-> m, model |-> ModelRec(e')]>>

\* a status error with code c as it arrives from a remote service (status.Error(c, text); nil for OK)
Foreign(c, m) ==
    /\ e = Null
    /\ e' = [class |-> "none", depth |-> 0, emb |-> -1, grpc |-> TRUE, code |-> c, rw |-> 0, msg |-> m]
    /\ hist' = <<[op |-> "Foreign", code |-> c, msg |-> m, req |-> ReqCode(c), model |-> ModelRec(e')]>>

\* fmt.Errorf("... %w ...", e): one more layer around a plain error
Wrap ==
    /\ e # Null /\ ~e.grpc /\ e.depth < MaxDepth
    /\ e' = [e EXCEPT !.depth = @ + 1]
    /\ hist' = Append(hist, [op |-> "Wrap", model |-> ModelRec(e')])

\* errors.EmbedObject(obj, e); a second object is refused by the library (panic), so at most one
Embed ==
    /\ e # Null /\ ~e.grpc /\ ~Embedded(e)
    /\ e' = [e EXCEPT !.emb = e.depth]
    /\ hist' = Append(hist, [op |-> "Embed", model |-> ModelRec(e')])

\* errors.GRPCWrap(e).  The step on a plain value crosses the boundary; the step on a value that is
\* already wrapped is the idempotence test (second = TRUE: the replayer also compares with the
\* value before the step).
GRPCWrap ==
    /\ e # Null /\ e.class # "none" /\ e.rw < 2
    /\ e' = GRPCWrapM(e)
    /\ hist' = Append(hist,
                 IF HasCode(e.class)
                 THEN [op |-> "GRPCWrap", req |-> ReqWrapped(e.class, Embedded(e), e.grpc), model |-> ModelRec(e')]
                 ELSE [op |-> "GRPCWrap", model |-> ModelRec(e')])

Next == \/ \E k \in Class, m \in Msgs : New(k, m)
        \/ \E c \in Code, m \in Msgs : Foreign(c, m)
        \/ Wrap \/ Embed \/ GRPCWrap

vars == <<e, hist>>
Spec == Init /\ [][Next]_vars

\* ---- what TLC checks (model with the probed tables |= contract) -------------
TablesOK == /\ ClassToCode \in [Class -> Code]
            /\ CodeToClass \in [Code -> ClassOrNil]
            /\ FallbackCode \in Code
TypeOK == e = Null \/ e \in Value

\* every value that crossed the boundary satisfies the four clauses of the property
Contract == (e # Null /\ e.grpc /\ e.class # "none") => Required(e.class, Embedded(e), ObsM(e))

\* the same fact on the tables alone: class -> code -> class is the identity on the classes that
\* have a code.  (Not required: code -> class -> code; several codes share a class.)
RoundTrip == \A k \in Class : HasCode(k) => CodeToClass[ClassToCode[k]] = k

\* no class that has a code is sent out as codes.Unknown or codes.OK: GRPCWrap would not recognise
\* its own result (Unknown) or the error would vanish (OK)
WrappedIsStable == \A k \in Class : HasCode(k) => ClassToCode[k] \notin {OK, Unknown}

\* every non-OK code maps back to a class, never to nil
NeverNil == \A c \in Code : CodeRequired(c, CodeToClass[c], {k \in Class : CodeToClass[c] = k})

View == e
Emit == EmitHist(hist')
=============================================================================
