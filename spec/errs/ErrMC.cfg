SPECIFICATION Spec
CONSTANTS
  ClassToCode <- ProbedClassToCode
  CodeToClass <- ProbedCodeToClass
  FallbackCode <- ProbedFallbackCode
  Msgs = {1, 2, 3}
  MaxDepth = 4
INVARIANTS TablesOK TypeOK Contract RoundTrip WrappedIsStable NeverNil
VIEW View
ACTION_CONSTRAINT Emit
CHECK_DEADLOCK FALSE
