------------------------------- MODULE ErrMC -------------------------------
(* Model-checking root for C19: ErrClasses with its table constants bound to *)
(* the tables probed from the compiled library (ErrTables.tla is generated   *)
(* by `vh drive errs-probe` into the scratch spec directory before TLC runs; *)
(* the copy kept next to this file is the probe's output on the pinned tree, *)
(* so that the specification can be read and checked on its own).            *)
(* cfg:  ClassToCode <- ProbedClassToCode   CodeToClass <- ProbedCodeToClass *)
(*       FallbackCode <- ProbedFallbackCode                                  *)
EXTENDS ErrClasses, ErrTables
=============================================================================
