------------------------------ MODULE ErrTrace ------------------------------
(* Trace validation for C19 (code -> spec).  `vh drive errs` builds seeded    *)
(* random chains (random class, depth, embed position, random message texts   *)
(* over the marker's alphabet, random %w formats) with the real functions and *)
(* records what it observed of GRPCWrap(chain); and what FromGRPCError        *)
(* answers for random codes and texts.  A line is consumed only if the        *)
(* observation is allowed by the CONTRACT operators of ErrClasses (Required,  *)
(* CodeRequired) -- the very operators TLC checked the model against.         *)
(*   {"op":"Chain","class":k,"depth":d,"emb":a,"code":c,"from":cls,           *)
(*    "is":[classes],"extract":bool,"same":bool}                              *)
(*   {"op":"Code","code":c,"from":cls,"is":[classes]}                         *)
(* A line with a "crash" field (a library call panicked) is never consumed.   *)
EXTENDS TraceLib, ErrTables, FiniteSets

VARIABLE l

EC == INSTANCE ErrClasses WITH ClassToCode <- ProbedClassToCode, CodeToClass <- ProbedCodeToClass,
                               FallbackCode <- ProbedFallbackCode, Msgs <- {}, MaxDepth <- 0,
                               e <- [class |-> "null"], hist <- <<>>

Ev == Trace[l]
SetOf(s) == {s[i] : i \in 1 .. Len(s)}

ChainOK(ev) ==
    /\ ev.class \in EC!Class
    /\ EC!Required(ev.class, ev.emb >= 0,
                   [is |-> SetOf(ev.is), same |-> ev.same, extract |-> ev.extract])
    \* one code, one class: the class reported for the wrapped value is the class the probe
    \* saw for its code (with another text), for classes with and without a code alike
    /\ ev.code \in EC!Code => ev.from = ProbedCodeToClass[ev.code]

CodeOK(ev) ==
    /\ EC!CodeRequired(ev.code, ev.from, SetOf(ev.is))
    /\ ev.from = ProbedCodeToClass[ev.code]

Init == l = 1
Next == /\ l <= Len(Trace)
        /\ ~Has(Ev, "crash")
        /\ CASE Ev.op = "Chain" -> ChainOK(Ev)
             [] Ev.op = "Code"  -> CodeOK(Ev)
             \* a status code beyond the seventeen: no class is promised, but never nil (and no crash, see above)
             [] Ev.op = "CodeX" -> Ev.from # "nil" /\ Ev.from # ""
             [] OTHER           -> FALSE
        /\ l' = l + 1
Spec == Init /\ [][Next]_l
Accepted == AcceptByDiameter
=============================================================================
