------------------------------ MODULE BytesBuf ------------------------------
(* X09 - contract of the bytes.Buffer interface (/repo/container/bytes/          *)
(* bstorage.go), checked against both implementations: the in-memory storage     *)
(* (container/bytes/inmem.go, NewInMemBytes) and files.MMFile.                    *)
(*                                                                             *)
(* Property (in the style of properties.jsonl):                                 *)
(*   "A bytes.Buffer is an array of Size() bytes.  Grow(n) with n > Size() keeps  *)
(*    every byte, appends zero bytes and makes Size() = n; with n < Size() it     *)
(*    fails and changes nothing (the interface only `allows to increase`).        *)
(*    Buffer(offs, n), n >= 0, fails with ErrInvalid unless 0 <= offs < Size();   *)
(*    otherwise it returns exactly the bytes offs .. min(offs + n, Size()) - 1.   *)
(*    The returned slice IS the storage: what is written through it is what       *)
(*    every later Buffer call returns for these positions, and what is written    *)
(*    through a later slice is seen through it, until the next Grow or Close      *)
(*    (which keep the bytes but invalidate the slices).  After Close, Buffer and  *)
(*    Grow fail and no call panics.  A failed call changes nothing."              *)
(*   Quantifies over: every sequence of Size / Grow / Buffer (read, write now,    *)
(*   keep the slice and read / write through it later) / Close on storages of a   *)
(*   few cells, offsets and lengths at, next to and across every boundary.        *)
(*                                                                             *)
(* Left open, because the doc comments are silent and the two implementations     *)
(* differ: Grow(n) with n = Size() (in-memory: nil, MMFile: ErrInvalid - nothing   *)
(* changes either way, but kept slices are given up); the error class of          *)
(* Grow(n < Size()) and of calls after Close (any error); Close after Close       *)
(* (in-memory: ErrClosed, MMFile: nil); Size() after Close; negative lengths       *)
(* (the in-memory Buffer(0, -1) panics with `slice bounds out of range`).          *)
(*                                                                             *)
(* Scale.  A cell is one byte for the in-memory storage and one 4096-byte block   *)
(* for MMFile (sizes must be multiples of the block there; positions inside a     *)
(* block are X04's business, see MMFile.tla).                                     *)
EXTENDS Integers, Sequences, Emit

CONSTANTS NewSizes,    \* sizes the storage is created with
          GrowSizes,   \* arguments of Grow
          Offs,        \* offsets given to Buffer (-1 is always tried as well)
          Lens,        \* lengths given to Buffer (>= 0)
          Vals,        \* non-zero values written
          MaxCells,    \* storages never get longer than this
          AfterClose   \* TRUE: Grow is also called on a closed storage (not on MMFile: see MMFile.tla)

VARIABLES open,    \* not closed yet
          cells,   \* the content, one value per cell
          held,    \* <<>> or <<o, k>>: the harness keeps the slice returned by Buffer for cells o+1 .. o+k
          hist

Min(a, b) == IF a < b THEN a ELSE b
Zeros(k) == [i \in 1 .. k |-> 0]
Size == Len(cells)

\* every step also carries what the harness can observe after it: the whole content (Buffer(0, Size)), whether the
\* storage is open, and the window of the kept slice (its content must be the content of these cells)
After(c, op, h) == [all |-> c, isopen |-> op, heldw |-> h]

Init == \E s \in NewSizes :
           /\ open = TRUE /\ cells = Zeros(s) /\ held = <<>>
           /\ hist = <<[op |-> "New", size |-> s] @@ After(Zeros(s), TRUE, <<>>)>>

BufOK(o) == open /\ o >= 0 /\ o < Size
BufLen(o, k) == Min(k, Size - o)
BufErr == IF open THEN "invalid" ELSE "error"

GetSize == /\ open /\ UNCHANGED <<open, cells, held>>
           /\ hist' = Append(hist, [op |-> "Size", size |-> Size] @@ After(cells', open', held'))

Grow(s) ==
    /\ open \/ AfterClose
    /\ s <= MaxCells
    /\ IF ~open
       THEN /\ UNCHANGED <<open, cells, held>>
            /\ hist' = Append(hist, [op |-> "Grow", size |-> s, err |-> "error", after |-> 0, closed |-> TRUE] @@ After(cells', open', held'))
       ELSE IF s < Size
       THEN /\ UNCHANGED <<open, cells, held>>
            /\ hist' = Append(hist, [op |-> "Grow", size |-> s, err |-> "error", after |-> Size] @@ After(cells', open', held'))
       ELSE IF s = Size
       THEN /\ held' = <<>> /\ UNCHANGED <<open, cells>>
            /\ hist' = Append(hist, [op |-> "Grow", size |-> s, err |-> "any", after |-> Size] @@ After(cells', open', held'))
       ELSE /\ cells' = cells \o Zeros(s - Size) /\ held' = <<>> /\ UNCHANGED open
            /\ hist' = Append(hist, [op |-> "Grow", size |-> s, err |-> "nil", after |-> s] @@ After(cells', open', held'))

\* Buffer(o, k) and fill the returned slice with v at once
Write(o, k, v) ==
    /\ UNCHANGED <<open, held>>
    /\ IF BufOK(o)
       THEN /\ cells' = [i \in 1 .. Size |-> IF i > o /\ i <= o + BufLen(o, k) THEN v ELSE cells[i]]
            /\ hist' = Append(hist, [op |-> "Write", offs |-> o, n |-> k, v |-> v, err |-> "nil", k |-> BufLen(o, k)] @@ After(cells', open', held'))
       ELSE /\ cells' = cells
            /\ hist' = Append(hist, [op |-> "Write", offs |-> o, n |-> k, v |-> v, err |-> BufErr] @@ After(cells', open', held'))

\* Buffer(o, k) and look at the returned slice
Read(o, k) ==
    /\ UNCHANGED <<open, cells, held>>
    /\ hist' = Append(hist, (IF BufOK(o)
                            THEN [op |-> "Read", offs |-> o, n |-> k, err |-> "nil", k |-> BufLen(o, k),
                                  data |-> SubSeq(cells, o + 1, o + BufLen(o, k))]
                            ELSE [op |-> "Read", offs |-> o, n |-> k, err |-> BufErr]) @@ After(cells, open, held))

\* Buffer(o, k) and keep the slice (replacing the one kept before)
Hold(o, k) ==
    /\ BufOK(o) /\ BufLen(o, k) > 0
    /\ held' = <<o, BufLen(o, k)>> /\ UNCHANGED <<open, cells>>
    /\ hist' = Append(hist, [op |-> "Hold", offs |-> o, n |-> k, err |-> "nil", k |-> BufLen(o, k)] @@ After(cells', open', held'))

\* no library call: fill the kept slice with v ...
WriteHeld(v) ==
    /\ held # <<>>
    /\ cells' = [i \in 1 .. Size |-> IF i > held[1] /\ i <= held[1] + held[2] THEN v ELSE cells[i]]
    /\ UNCHANGED <<open, held>>
    /\ hist' = Append(hist, [op |-> "WriteHeld", v |-> v] @@ After(cells', open', held'))
\* ... or look at it: it shows what was written through other slices since
ReadHeld ==
    /\ held # <<>>
    /\ UNCHANGED <<open, cells, held>>
    /\ hist' = Append(hist, [op |-> "ReadHeld", data |-> SubSeq(cells, held[1] + 1, held[1] + held[2])] @@ After(cells', open', held'))

Close ==
    /\ open' = FALSE /\ held' = <<>> /\ UNCHANGED cells
    /\ hist' = Append(hist, [op |-> "Close", err |-> IF open THEN "nil" ELSE "any"] @@ After(cells', open', held'))

Next == \/ GetSize \/ Close \/ ReadHeld
        \/ \E s \in GrowSizes : Grow(s)
        \/ \E o \in Offs \cup {-1}, k \in Lens : Read(o, k) \/ Hold(o, k) \/ \E v \in Vals : Write(o, k, v)
        \/ \E v \in Vals : WriteHeld(v)

vars == <<open, cells, held, hist>>
Spec == Init /\ [][Next]_vars
View == <<open, cells, held>>
Emit == EmitHist(hist')

\* ---- what TLC checks about the contract itself ----------------------------------------------------------
HeldInside == held # <<>> => (open /\ held[1] >= 0 /\ held[2] > 0 /\ held[1] + held[2] <= Size)
\* the storage never shrinks and a byte only changes by a write
NeverShrinks == [][Len(cells') >= Len(cells)]_vars
GrowKeeps == [][Len(cells') > Len(cells) => SubSeq(cells', 1, Len(cells)) = cells]_vars
=============================================================================
