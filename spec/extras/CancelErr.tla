------------------------------ MODULE CancelErr ------------------------------
(* X01 - contract of context.WithCancelError (/repo/context/cnclderr.go).     *)
(*                                                                            *)
(* Property (in the style of properties.jsonl):                                *)
(*   "A context made by WithCancelError(parent) is cancelled exactly once and  *)
(*    the FIRST cancellation wins: for every interleaving of calls             *)
(*    cancel(e1), cancel(e2), ... and of the parent's own cancellation, there  *)
(*    is one error E such that Err() is nil exactly as long as Done() is open  *)
(*    and is E for ever after, for every reader; E is the argument of the      *)
(*    first cancel call (ErrClosed when that argument is nil) or, when the     *)
(*    parent was cancelled first, the parent's Err(); later cancel calls are   *)
(*    no-ops (never panic); a cancelled parent cancels the child without any   *)
(*    further call; Deadline() and Value() are the parent's; contexts derived  *)
(*    from the child with the standard library are done when the child is."    *)
(*   Quantifies over: call sequences (this module, every sequence of at most   *)
(*   MaxLen calls for every kind of parent), schedules of concurrent           *)
(*   cancellers / parent cancellation / watchdog goroutine / readers           *)
(*   (CancelErrImpl.tla, exhaustive), recorded concurrent executions of the    *)
(*   real code (CancelErrTrace.tla).                                           *)
(*                                                                            *)
(* Only API-observable values appear: perr = what parent.Err() reports,        *)
(* cerr = what child.Err() reports ("none" = nil).  Done() of the child is     *)
(* closed iff cerr # "none": that IS the property, so `done` is not a second   *)
(* variable.  The step from "parent cancelled" to "child cancelled" is taken   *)
(* by a goroutine of the library at a time of its own choosing; in this        *)
(* sequential module every call that cancels the parent waits for the child's  *)
(* Done() before it replies (the reply prescribes that Done() IS closed: the   *)
(* harness waits with a generous one-sided bound), so every state between two  *)
(* calls is settled and every reply is determined - except Race(e), where the  *)
(* parent's cancellation and cancel(e) are issued together and the contract    *)
(* allows either to win (the reply lists both; both successor states exist).   *)
EXTENDS Integers, Sequences, Emit

CONSTANTS ParentKind,   \* "bg": Background | "cancel": WithCancel | "value": WithValue(k1:v1) over WithCancel
                        \* | "deadline": WithDeadline(far future) | "expired": WithDeadline(past)
          Errs,         \* the user's error values, e.g. {"e1", "e2"}
          MaxLen        \* histories of at most MaxLen entries

VARIABLES perr,   \* "none" | "canceled" | "deadline"
          cerr,   \* "none" | e \in Errs | "closed" | "canceled" | "deadline"
          hist

Args == Errs \cup {"nil"}                 \* what cancel may be called with
Norm(e) == IF e = "nil" THEN "closed" ELSE e

\* ---- the contract as pure operators (used by CancelErrImpl and CancelErrTrace) ---
AfterCancel(ce, e)     == IF ce = "none" THEN Norm(e) ELSE ce          \* first wins, nil -> ErrClosed
AfterPropagate(ce, pe) == IF ce = "none" /\ pe # "none" THEN pe ELSE ce
AfterParentCancel(pe)  == IF pe = "none" THEN "canceled" ELSE pe       \* the standard library's rule

CanCancelParent == ParentKind \in {"cancel", "value", "deadline"}
HasDeadline     == ParentKind \in {"deadline", "expired"}
ValueOf(k)      == IF ParentKind = "value" /\ k = "k1" THEN "v1" ELSE "nil"

\* what every reply carries: the child's state as every reader must see it after the call
Obs(ce) == [err |-> ce, done |-> ce # "none"]

Init == /\ perr = (IF ParentKind = "expired" THEN "deadline" ELSE "none")
        /\ cerr = perr                     \* an already-done parent cancels the child (New waits for it)
        /\ hist = <<[op |-> "New", kind |-> ParentKind] @@ Obs(cerr)>>

Cancel(e) ==
    /\ cerr' = AfterCancel(cerr, e)
    /\ perr' = perr
    /\ hist' = Append(hist, [op |-> "Cancel", arg |-> e] @@ Obs(cerr'))

ParentCancel ==
    /\ CanCancelParent
    /\ perr' = AfterParentCancel(perr)
    /\ cerr' = AfterPropagate(cerr, perr')
    /\ hist' = Append(hist, [op |-> "ParentCancel", perr |-> perr'] @@ Obs(cerr'))

\* parent cancellation and cancel(e) at the same time: either may be first
Race(e) ==
    /\ CanCancelParent
    /\ perr' = AfterParentCancel(perr)
    /\ \E first \in {"parent", "user"} :
         /\ cerr' = IF first = "parent" THEN AfterCancel(AfterPropagate(cerr, perr'), e)
                                        ELSE AfterPropagate(AfterCancel(cerr, e), perr')
         /\ hist' = Append(hist, [op |-> "Race", arg |-> e, perr |-> perr',
                                  allowed |-> {AfterCancel(AfterPropagate(cerr, perr'), e),
                                               AfterPropagate(AfterCancel(cerr, e), perr')}]
                                 @@ Obs(cerr'))

\* pure observations
Deadline == /\ UNCHANGED <<perr, cerr>>
            /\ hist' = Append(hist, [op |-> "Deadline", has |-> HasDeadline] @@ Obs(cerr))
Value(k) == /\ UNCHANGED <<perr, cerr>>
            /\ hist' = Append(hist, [op |-> "Value", key |-> k, val |-> ValueOf(k)] @@ Obs(cerr))
Look     == /\ UNCHANGED <<perr, cerr>>
            /\ hist' = Append(hist, [op |-> "Look"] @@ Obs(cerr))

Next == \/ \E e \in Args : Cancel(e) \/ Race(e)
        \/ ParentCancel \/ Deadline \/ Look
        \/ \E k \in {"k1", "k2"} : Value(k)

vars == <<perr, cerr, hist>>
Spec == Init /\ [][Next]_vars

Bound == Len(hist) <= MaxLen
Emit  == EmitHist(hist')

\* ---- what the property says, as invariants / action properties -------------------
TypeOK == /\ perr \in {"none", "canceled", "deadline"}
          /\ cerr \in {"none", "closed", "canceled", "deadline"} \cup Errs
\* a cancelled parent has cancelled the child (in every settled state)
ParentPropagated == perr # "none" => cerr # "none"
\* the child reports the parent's error only if the parent is cancelled
ParentErrOnlyFromParent == (cerr \in {"canceled", "deadline"}) => cerr = perr
\* first cancellation wins: once set, the error never changes
FirstWins == [][cerr # "none" => cerr' = cerr]_vars
=============================================================================
