---------------------------- MODULE CancelErrImpl ----------------------------
(* X01 - implementation-shaped model of /repo/context/cnclderr.go.            *)
(*                                                                            *)
(* The code's own variables: the mutex c.mu, the field c.err, the channel     *)
(* c.ch (open/closed), the parent's Done()/Err(); and its goroutines:          *)
(*   - any number of callers of the CancelErrFunc: c.cancel(arg)               *)
(*   - the watchdog goroutine started by WithCancelError:                      *)
(*        select { case <-parent.Done(): c.cancel(parent.Err()); case <-c.ch: }*)
(*   - the owner of the parent cancelling it                                   *)
(*   - readers calling Err() (under c.mu) and polling Done() (no lock).        *)
(* One action per statement of cancel():                                       *)
(*    lock -> [select on c.ch: closed -> unlock/return] -> if c.err == nil     *)
(*    {c.err = err or ErrClosed} -> close(c.ch) -> unlock (deferred).          *)
(* TLC checks, for every interleaving:                                         *)
(*   NoPanic        close(c.ch) is never executed on a closed channel          *)
(*   Refines        the abstract error  IF closed THEN err ELSE "none"  moves  *)
(*                  only as CancelErr!AfterCancel / AfterPropagate allow, with *)
(*                  an argument of a cancel call that is in progress           *)
(*   ReadersAgree   over all readers: every non-nil Err() reply is the same    *)
(*                  error; a reader that saw Done() closed never sees Err()    *)
(*                  nil afterwards; a reader that saw Err() non-nil never sees *)
(*                  Done() open afterwards                                     *)
(*   liveness       parent cancelled ~> child closed; child closed ~> the      *)
(*                  watchdog goroutine has ended (nothing is leaked)           *)
(* The Bug constant switches in wrong variants of cancel() that TLC must       *)
(* reject (negative controls of the specification itself).                     *)
EXTENDS Integers, Sequences, FiniteSets, TLC

CONSTANTS Cancellers,   \* identities of goroutines calling the CancelErrFunc
                        \* (strings; a canceller is named after its argument: "e1", "e2", ..., and "nilc" calls cancel(nil))
          Readers,      \* identities of reader goroutines
          NObs,         \* observations per reader
          WithParent,   \* TRUE: the parent can be cancelled
          Bug           \* "none" | "nocheck" (no select on c.ch) | "lastwins" (no `if c.err == nil`, no closed check, close guarded)
                        \* | "unlocked-err" (Err() does not take the mutex)

VARIABLES mu,        \* "free" or the goroutine holding c.mu
          err,       \* c.err: "none" or an error name
          closed,    \* c.ch closed?
          pdone,     \* parent.Done() closed?  (parent.Err() is then "canceled")
          pc,        \* program counter per goroutine
          arg,       \* argument of the cancel call in progress per goroutine
          obs,       \* per reader: sequence of <<"err", v>> / <<"done", b>>
          panic

ArgOf(c) == IF c = "nilc" THEN "nil" ELSE c

C == INSTANCE CancelErr WITH ParentKind <- "cancel", Errs <- {ArgOf(c) : c \in Cancellers} \ {"nil"},
                             MaxLen <- 0, perr <- "none", cerr <- "none", hist <- <<>>

WD == "watchdog"
Procs == Cancellers \cup {WD}
vars == <<mu, err, closed, pdone, pc, arg, obs, panic>>

Init == /\ mu = "free" /\ err = "none" /\ closed = FALSE /\ pdone = FALSE /\ panic = FALSE
        /\ pc = [p \in Procs |-> IF p = WD THEN "select" ELSE "idle"]
        /\ arg = [p \in Procs |-> IF p = WD THEN "nil" ELSE ArgOf(p)]
        /\ obs = [r \in Readers |-> <<>>]

\* ---- c.cancel(arg[p]) statement by statement ------------------------------------
Call(p) == /\ p \in Cancellers /\ pc[p] = "idle"
           /\ pc' = [pc EXCEPT ![p] = "lock"]
           /\ UNCHANGED <<mu, err, closed, pdone, arg, obs, panic>>

Lock(p) == /\ pc[p] = "lock" /\ mu = "free"
           /\ mu' = p
           /\ pc' = [pc EXCEPT ![p] = IF Bug \in {"nocheck", "lastwins"} THEN "seterr" ELSE "check"]
           /\ UNCHANGED <<err, closed, pdone, arg, obs, panic>>

\* select { case <-c.ch: return; default: }
Check(p) == /\ pc[p] = "check"
            /\ pc' = [pc EXCEPT ![p] = IF closed THEN "unlock" ELSE "seterr"]
            /\ UNCHANGED <<mu, err, closed, pdone, arg, obs, panic>>

\* if c.err == nil { c.err = err; if err == nil { c.err = ErrClosed } }
SetErr(p) == /\ pc[p] = "seterr"
             /\ err' = IF Bug = "lastwins" THEN C!Norm(arg[p]) ELSE C!AfterCancel(err, arg[p])
             /\ pc' = [pc EXCEPT ![p] = "close"]
             /\ UNCHANGED <<mu, closed, pdone, arg, obs, panic>>

\* close(c.ch): panics on a closed channel
Close(p) == /\ pc[p] = "close"
            /\ IF closed
               THEN IF Bug = "lastwins" THEN UNCHANGED <<closed, panic>>      \* that variant guards the close
                    ELSE panic' = TRUE /\ closed' = closed
               ELSE closed' = TRUE /\ panic' = panic
            /\ pc' = [pc EXCEPT ![p] = "unlock"]
            /\ UNCHANGED <<mu, err, pdone, arg, obs>>

Unlock(p) == /\ pc[p] = "unlock" /\ mu = p
             /\ mu' = "free"
             /\ pc' = [pc EXCEPT ![p] = "returned"]
             /\ UNCHANGED <<err, closed, pdone, arg, obs, panic>>

\* ---- the watchdog goroutine ----------------------------------------------------------
\* case <-parent.Done(): c.cancel(parent.Err())
WdParent == /\ pc[WD] = "select" /\ pdone
            /\ arg' = [arg EXCEPT ![WD] = "canceled"]
            /\ pc' = [pc EXCEPT ![WD] = "lock"]
            /\ UNCHANGED <<mu, err, closed, pdone, obs, panic>>
\* case <-c.ch:
WdChild == /\ pc[WD] = "select" /\ closed
           /\ pc' = [pc EXCEPT ![WD] = "returned"]
           /\ UNCHANGED <<mu, err, closed, pdone, arg, obs, panic>>

\* ---- the environment ----------------------------------------------------------------
ParentCancel == /\ WithParent /\ ~pdone
                /\ pdone' = TRUE
                /\ UNCHANGED <<mu, err, closed, pc, arg, obs, panic>>

\* Err(): lock; read; unlock - a read-only critical section, one atomic step when the mutex is free
ReadErr(r) == /\ Len(obs[r]) < NObs
              /\ (Bug = "unlocked-err" \/ mu = "free")
              /\ obs' = [obs EXCEPT ![r] = Append(@, <<"err", err>>)]
              /\ UNCHANGED <<mu, err, closed, pdone, pc, arg, panic>>
\* select on Done(): no lock
ReadDone(r) == /\ Len(obs[r]) < NObs
               /\ obs' = [obs EXCEPT ![r] = Append(@, <<"done", IF closed THEN "yes" ELSE "no">>)]
               /\ UNCHANGED <<mu, err, closed, pdone, pc, arg, panic>>

Step(p) == Call(p) \/ Lock(p) \/ Check(p) \/ SetErr(p) \/ Close(p) \/ Unlock(p)
Next == \/ \E p \in Procs : Step(p)
        \/ WdParent \/ WdChild \/ ParentCancel
        \/ \E r \in Readers : ReadErr(r) \/ ReadDone(r)

Spec == Init /\ [][Next]_vars
FairSpec == Spec /\ \A p \in Procs : WF_vars(Step(p)) /\ WF_vars(WdParent) /\ WF_vars(WdChild)

\* ---- properties -------------------------------------------------------------------------
NoPanic == ~panic
MutexOK == mu \in {"free"} \cup Procs

\* what a reader that takes the mutex / polls the channel can see
AbsErr == IF closed THEN err ELSE "none"
\* whenever the mutex is free, c.err is non-nil exactly if the channel is closed
LockedView == mu = "free" => ((err # "none") <=> closed)

InCall(p) == pc[p] \in {"lock", "check", "seterr", "close", "unlock"}
\* refinement of the contract: the abstract error changes only from "none", to the (normalised)
\* argument of a cancel call in progress; the watchdog's argument is the parent's error
Refines == [][ \/ AbsErr' = AbsErr
               \/ /\ AbsErr = "none"
                  /\ \E p \in Procs : InCall(p) /\ AbsErr' = C!AfterCancel("none", arg[p])
                  /\ (AbsErr' = "canceled" => pdone) ]_vars

AllObs == UNION {{obs[r][i] : i \in 1 .. Len(obs[r])} : r \in Readers}
ErrObs == {o[2] : o \in {x \in AllObs : x[1] = "err"}}
ReadersAgree ==
    /\ Cardinality(ErrObs \ {"none"}) <= 1                  \* exactly one error is ever observed
    /\ \A r \in Readers : \A i, j \in 1 .. Len(obs[r]) :
         i < j =>
           /\ (obs[r][i] = <<"done", "yes">> /\ obs[r][j][1] = "err") => obs[r][j][2] # "none"
           /\ (obs[r][i][1] = "err" /\ obs[r][i][2] # "none" /\ obs[r][j][1] = "done") => obs[r][j][2] = "yes"
           /\ (obs[r][i][1] = "err" /\ obs[r][i][2] # "none" /\ obs[r][j][1] = "err") => obs[r][j][2] = obs[r][i][2]
           /\ (obs[r][i] = <<"done", "yes">> /\ obs[r][j][1] = "done") => obs[r][j][2] = "yes"

\* liveness (FairSpec)
ParentCancels  == pdone ~> closed
WatchdogEnds   == closed ~> (pc[WD] = "returned")
CallsReturn    == \A p \in Cancellers : (pc[p] = "lock") ~> (pc[p] = "returned")
=============================================================================
