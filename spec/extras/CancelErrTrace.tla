---------------------------- MODULE CancelErrTrace ----------------------------
(* X01, direction code -> spec: TLC decides whether a recorded CONCURRENT       *)
(* execution of one WithCancelError context is explained by the contract        *)
(* CancelErr (operators AfterCancel / AfterPropagate / AfterParentCancel; the   *)
(* contract is not restated here).                                              *)
(*                                                                             *)
(* Trace (ndjson, serialised by the harness's global sequence number):           *)
(*   {"e":"reset"}                         a fresh context over a fresh          *)
(*                                         cancellable parent starts here        *)
(*   {"e":"inv","t":T,"op":"cancel","arg":A}   T is about to call cancel(A)      *)
(*   {"e":"inv","t":T,"op":"pcancel"}          T is about to cancel the parent   *)
(*   {"e":"inv","t":T,"op":"err"|"done"|"wait"} T is about to call Err() / poll  *)
(*                                         Done() / block on <-Done()            *)
(*   {"e":"ret","t":T, ["err":E | "done":B]}   the call of T returned            *)
(* "inv" is logged before and "ret" after the real call, so the logged interval  *)
(* contains the real one (sound).  Lin(t) is the silent linearization point of   *)
(* the pending call of t, enabled only if the contract's reply there is the      *)
(* logged one; Propagate is the library's own step (the watchdog goroutine): a   *)
(* cancelled parent cancels the child unless it is cancelled already.            *)
(* Accepted iff the cursor reaches the end (high-water mark, TraceLib).          *)
EXTENDS TraceLib

CONSTANT MaxT
VARIABLES l, perr, cerr, pend
vars == <<l, perr, cerr, pend>>

C == INSTANCE CancelErr WITH ParentKind <- "cancel", Errs <- {}, MaxLen <- 0, hist <- <<>>

Threads == 1 .. MaxT
Idle == [idle |-> TRUE]
Ev == Trace[l]

RECURSIVE FindRet(_, _)
FindRet(j, t) == IF j > Len(Trace) \/ Trace[j].e = "reset" THEN 0
                 ELSE IF Trace[j].e = "ret" /\ Trace[j].t = t THEN j
                 ELSE FindRet(j + 1, t)

Init == /\ l = 1 /\ perr = "none" /\ cerr = "none"
        /\ pend = [t \in Threads |-> Idle]
        /\ HighWaterInit

Reset == /\ l <= Len(Trace) /\ Ev.e = "reset"
         /\ l' = l + 1 /\ perr' = "none" /\ cerr' = "none"
         /\ pend' = [t \in Threads |-> Idle]

Inv == /\ l <= Len(Trace) /\ Ev.e = "inv"
       /\ pend[Ev.t] = Idle
       /\ LET rl == FindRet(l + 1, Ev.t)
          IN /\ rl # 0
             /\ pend' = [pend EXCEPT ![Ev.t] = [inv |-> l, ret |-> rl, todo |-> TRUE]]
       /\ l' = l + 1
       /\ UNCHANGED <<perr, cerr>>

\* the pending call of t takes effect now, with the reply the log shows for it
Lin(t) ==
    /\ pend[t] # Idle /\ pend[t].todo
    /\ LET c == Trace[pend[t].inv]
           r == Trace[pend[t].ret]
       IN CASE c.op = "cancel"  -> /\ ~Has(r, "panic")
                                   /\ cerr' = C!AfterCancel(cerr, c.arg) /\ perr' = perr
            [] c.op = "pcancel" -> perr' = C!AfterParentCancel(perr) /\ cerr' = cerr
            [] c.op = "err"     -> r.err = cerr /\ UNCHANGED <<perr, cerr>>
            [] c.op = "done"    -> r.done = (cerr # "none") /\ UNCHANGED <<perr, cerr>>
            [] c.op = "wait"    -> cerr # "none" /\ UNCHANGED <<perr, cerr>>
            [] OTHER            -> FALSE
    /\ pend' = [pend EXCEPT ![t].todo = FALSE]
    /\ UNCHANGED l

\* the library's own step
Propagate == /\ perr # "none" /\ cerr = "none"
             /\ cerr' = C!AfterPropagate(cerr, perr)
             /\ UNCHANGED <<l, perr, pend>>

Ret == /\ l <= Len(Trace) /\ Ev.e = "ret"
       /\ pend[Ev.t] # Idle /\ pend[Ev.t].ret = l
       /\ ~pend[Ev.t].todo
       /\ pend' = [pend EXCEPT ![Ev.t] = Idle]
       /\ l' = l + 1
       /\ UNCHANGED <<perr, cerr>>

Next == Reset \/ Inv \/ Ret \/ Propagate \/ \E t \in Threads : Lin(t)
Spec == Init /\ [][Next]_vars

Explore  == HighWater(l)
Accepted == AcceptByHighWater
=============================================================================
