------------------------------ MODULE ChanSelect ------------------------------
(* X02a - contract of chans.WriteToManyWithControl (/repo/chans/select.go).    *)
(*                                                                            *)
(* Property (in the style of properties.jsonl):                                *)
(*   "WriteToManyWithControl(descs, v) blocks until the value can be handed to *)
(*    one of the write channels or one of the done channels is closed, then     *)
(*    does exactly one of the two: either v is sent on exactly one write        *)
(*    channel i and (i, true) is returned, or nothing is sent anywhere and      *)
(*    (i, false) is returned for an entry i whose done channel is closed.  It   *)
(*    never returns while no case is ready, never sends on a channel other than *)
(*    the reported one, never reports an entry whose case was not ready; which  *)
(*    of several ready cases is taken is not specified.  An empty descriptor    *)
(*    list panics."                                                             *)
(*   Quantifies over: channel configurations (capacity 0/1.. per write channel, *)
(*   done channel open / closed / nil), buffer fill states, parked receivers,   *)
(*   and every order of calls and environment steps (close a done channel,      *)
(*   receive from a write channel, park a receiver) - before and DURING a       *)
(*   blocked call.                                                              *)
(*                                                                            *)
(* Only observable values: per entry the capacity, the buffered values, whether *)
(* a receiver is parked on the write channel, the state of the done channel;    *)
(* and the value of a call that is blocked.  The k-th call sends the value k,   *)
(* so every value is distinct and a misdirected send is visible.                *)
EXTENDS Integers, Sequences, FiniteSets, Emit

CONSTANTS N,          \* number of descriptors
          Caps,       \* capacities a write channel may have, e.g. {0, 1}
          MaxCalls    \* calls per behaviour

VARIABLES cap,     \* 1..N -> capacity
          dst,     \* 1..N -> "open" | "closed" | "nil"
          buf,     \* 1..N -> sequence of buffered values
          parked,  \* 1..N -> number of receivers blocked on the write channel (0 or 1)
          pend,    \* value of the blocked call, 0 if no call is in progress
          ncalls,
          hist

I == 1 .. N
WReady(i) == parked[i] > 0 \/ Len(buf[i]) < cap[i]
DReady(i) == dst[i] = "closed"
AnyReady  == \E i \in I : WReady(i) \/ DReady(i)
\* the outcomes the contract allows in the current state (idx is 0-based as in Go)
Allowed == {[idx |-> i - 1, ok |-> TRUE] : i \in {j \in I : WReady(j)}}
           \cup {[idx |-> i - 1, ok |-> FALSE] : i \in {j \in I : DReady(j)}}

Init == /\ cap \in [I -> Caps]
        /\ dst \in [I -> {"open", "nil"}]
        /\ buf = [i \in I |-> <<>>] /\ parked = [i \in I |-> 0]
        /\ pend = 0 /\ ncalls = 0
        /\ hist = <<[op |-> "New", caps |-> cap, dnil |-> [i \in I |-> dst[i] = "nil"]]>>

\* appended to every reply: buffer lengths after the step (compared with len(ch) of the real channels)
After == [lens |-> [i \in I |-> Len(buf'[i])], parked |-> [i \in I |-> parked'[i]]]

\* v is handed to write channel i: to a parked receiver if there is one, else into the buffer
Sent(i, v) == IF parked[i] > 0
              THEN parked' = [parked EXCEPT ![i] = 0] /\ buf' = buf
              ELSE buf' = [buf EXCEPT ![i] = Append(@, v)] /\ parked' = parked

Call ==
    /\ pend = 0 /\ ncalls < MaxCalls
    /\ ncalls' = ncalls + 1
    /\ LET v == ncalls + 1 IN
       IF AnyReady
       THEN /\ pend' = 0 /\ UNCHANGED <<cap, dst>>
            /\ \/ \E i \in I : /\ WReady(i) /\ Sent(i, v)
                               /\ hist' = Append(hist, [op |-> "Call", v |-> v, blocks |-> FALSE, idx |-> i - 1, ok |-> TRUE,
                                                        torecv |-> parked[i] > 0, allowed |-> Allowed] @@ After)
               \/ \E i \in I : /\ DReady(i) /\ UNCHANGED <<buf, parked>>
                               /\ hist' = Append(hist, [op |-> "Call", v |-> v, blocks |-> FALSE, idx |-> i - 1, ok |-> FALSE,
                                                        torecv |-> FALSE, allowed |-> Allowed] @@ After)
       ELSE /\ pend' = v /\ UNCHANGED <<cap, dst, buf, parked>>
            /\ hist' = Append(hist, [op |-> "Call", v |-> v, blocks |-> TRUE] @@ After)

\* environment steps; with a blocked call each of them makes exactly one case ready and the call returns with it
CloseDone(i) ==
    /\ dst[i] = "open"
    /\ dst' = [dst EXCEPT ![i] = "closed"]
    /\ pend' = 0
    /\ UNCHANGED <<cap, buf, parked, ncalls>>
    /\ hist' = Append(hist, After @@ IF pend # 0 THEN [op |-> "CloseDone", i |-> i - 1, ret |-> TRUE, idx |-> i - 1, ok |-> FALSE]
                                        ELSE [op |-> "CloseDone", i |-> i - 1, ret |-> FALSE])

Recv(i) ==
    /\ buf[i] # <<>>
    /\ pend' = 0
    /\ buf' = [buf EXCEPT ![i] = IF pend # 0 THEN Append(Tail(@), pend) ELSE Tail(@)]
    /\ UNCHANGED <<cap, dst, parked, ncalls>>
    /\ hist' = Append(hist, After @@ IF pend # 0 THEN [op |-> "Recv", i |-> i - 1, v |-> Head(buf[i]), ret |-> TRUE, idx |-> i - 1, ok |-> TRUE]
                                        ELSE [op |-> "Recv", i |-> i - 1, v |-> Head(buf[i]), ret |-> FALSE])

Park(i) ==
    /\ parked[i] = 0 /\ buf[i] = <<>>
    /\ pend' = 0
    /\ parked' = [parked EXCEPT ![i] = IF pend # 0 THEN 0 ELSE 1]
    /\ UNCHANGED <<cap, dst, buf, ncalls>>
    /\ hist' = Append(hist, After @@ IF pend # 0 THEN [op |-> "Park", i |-> i - 1, ret |-> TRUE, idx |-> i - 1, ok |-> TRUE, got |-> pend]
                                        ELSE [op |-> "Park", i |-> i - 1, ret |-> FALSE])

Next == Call \/ \E i \in I : CloseDone(i) \/ Recv(i) \/ Park(i)
vars == <<cap, dst, buf, parked, pend, ncalls, hist>>
Spec == Init /\ [][Next]_vars

View == <<cap, dst, buf, parked, pend, ncalls>>
Emit == EmitHist(hist')

\* ---- what the property says, as invariants ---------------------------------------------------------
\* a call is blocked only while no case is ready
BlockedOnlyIfNothingReady == pend # 0 => ~AnyReady
\* every value sent so far is in exactly one place (or was received): no duplicate, never more than capacity
NoDuplicates == \A i, j \in I : \A a \in 1 .. Len(buf[i]) : \A b \in 1 .. Len(buf[j]) :
                    (buf[i][a] = buf[j][b]) => (i = j /\ a = b)
WithinCap == \A i \in I : Len(buf[i]) <= cap[i]
=============================================================================
