--------------------------- MODULE ConfigEnricher ---------------------------
(* X07 - contract of the configuration enricher, /repo/config/enricher.go and  *)
(* config.go (Enricher[T]: ApplyOther, ApplyKeyValues / ApplyEnvVariables /     *)
(* LoadJSONAndApply, LoadFromFile / LoadFromJSONFile / LoadFromYAMLFile).       *)
(*                                                                            *)
(* Property (in the style of properties.jsonl), taken from the doc comments of  *)
(* the Enricher interface:                                                      *)
(*   "The value an Enricher[T] holds after any sequence of calls is the one the *)
(*    comments prescribe.  (1) ApplyOther(o) is a deep merge: every exported    *)
(*    leaf of o (scalar, slice) that is not its zero value overwrites the       *)
(*    target's leaf, a zero leaf leaves the target alone, recursively through   *)
(*    nested structs and struct pointers (nil pointer in o: target untouched;   *)
(*    non-nil pointer in o and nil in the target: the target is allocated);     *)
(*    hence applying a zero value is the identity, applying the same value      *)
(*    twice equals applying it once, a zero target becomes o, and ApplyOther is *)
(*    associative.  (2) ApplyKeyValues(prefix, sep, kv) - and ApplyEnvVariables *)
(*    with the environment as kv, LoadJSONAndApply with the file as kv, prefix  *)
(*    "" and sep "_" - assigns for every key                                    *)
(*    upper(key) = upper(prefix) upper(sep) N1 upper(sep) N2 ... where N1 N2 .. *)
(*    are the upper-cased field names OR json aliases of a path of exported     *)
(*    fields through T (nested structs, struct pointers), the value the text    *)
(*    denotes for the addressed field (a JSON value; for string fields also the *)
(*    bare text); nil struct pointers on the path are allocated; keys without   *)
(*    the prefix, keys that are no such path, and paths continuing below a leaf *)
(*    change nothing (not even allocate); a text the field cannot take leaves   *)
(*    the field alone and does not stop the other keys; unexported fields are   *)
(*    never updated.  Keys addressing different leaves commute: the result does *)
(*    not depend on the iteration order of the map - unless one key addresses a *)
(*    field and another the same field or something inside it (the documented   *)
(*    MYSERVER_INNERS / MYSERVER_INNERS_VAL corner), where any order may win.   *)
(*    (3) LoadFromFile dispatches on the extension (.json / .yaml), the empty   *)
(*    name is a no-op returning nil, a missing file gives an error of the       *)
(*    errors.ErrNotExist class, any error but a parse error leaves the value    *)
(*    alone; a loaded document overwrites exactly the fields present in it      *)
(*    (even with zero values; nested structs field by field; keys are json      *)
(*    aliases - or names of untagged fields -, case-insensitive, unknown keys   *)
(*    ignored) and the JSON and the YAML rendering of one document load to the  *)
(*    same value."                                                              *)
(*   Quantifies over: every sequence of up to Depth calls from the universe     *)
(*   below (Others, KVCalls, Docs), started from every value of InitTrees, for  *)
(*   the fixed type T of Schema (int / string / bool leaves, one with a json    *)
(*   alias, one whose name is a prefix of another's, a nested struct, a pointer *)
(*   to a nested struct with an alias, both with an alias'd leaf and a struct   *)
(*   of their own (three levels), a *string, a slice leaf, an unexported leaf). *)
(*                                                                            *)
(* Left open on purpose (the comments do not decide; neither spec nor harness   *)
(* judge): which key wins in the parent/child and same-leaf corners; whether a  *)
(* JSON object assigned to a struct field resets the members it does not name   *)
(* (the code: resets) or keeps them; the empty value text; a separator that     *)
(* occurs inside a field name, the empty separator, a trailing separator; an    *)
(* alias equal to another field's name; nil vs empty slices; upper-case file    *)
(* extensions; the value after a failed parse; the name (not the alias) of a    *)
(* tagged field as a document key.                                              *)
(*                                                                            *)
(* Strings are TLC strings (Len, \o, SubSeq work on them); upper-casing is the  *)
(* table UpChar.  A struct value is a function field name -> value; a struct    *)
(* pointer is <<>> (nil) or <<struct value>>.                                   *)
EXTENDS Integers, Sequences, FiniteSets, TLC, Json, Emit

CONSTANTS Depth,        \* number of calls per behaviour
          Inits,        \* indices into InitTrees explored by this run (runs are partitioned by initial value)
          CheckLeaves   \* FALSE: the laws below are evaluated on the values reached by fewer than Depth calls only

VARIABLES tree,      \* the value the enricher holds (the contract's only state)
          n,         \* calls made so far; Depth after a call that leaves the value open
          hist       \* the behaviour so far, emitted for the replay on the real Enricher[T]

\* ======================================================================================================
\* Upper-casing
\* ======================================================================================================
LowerS == "abcdefghijklmnopqrstuvwxyz"
UpperS == "ABCDEFGHIJKLMNOPQRSTUVWXYZ"
UpTab == [c \in {SubSeq(LowerS, i, i) : i \in 1 .. 26} |->
             LET i == CHOOSE j \in 1 .. 26 : SubSeq(LowerS, j, j) = c IN SubSeq(UpperS, i, i)]
UpChar(c) == IF c \in DOMAIN UpTab THEN UpTab[c] ELSE c
RECURSIVE Upper(_)
Upper(s) == IF s = "" THEN "" ELSE UpChar(SubSeq(s, 1, 1)) \o Upper(SubSeq(s, 2, Len(s)))
HasPrefix(s, p) == Len(p) <= Len(s) /\ SubSeq(s, 1, Len(p)) = p
CutPrefix(s, p) == SubSeq(s, Len(p) + 1, Len(s))

\* ======================================================================================================
\* The type T
\* ======================================================================================================
\* json: the (upper-cased) name the field has in documents - the alias if tagged, else the field name
F(name, alias, kind, type) == [name |-> name, alias |-> alias, kind |-> kind, type |-> type,
                               uname |-> Upper(name), ualias |-> Upper(alias),
                               json |-> Upper(IF alias # "" THEN alias ELSE name)]
Schema == [T     |-> << F("Port",    "",      "int",        ""),
                        F("Name",    "title", "string",     ""),
                        F("NameSfx", "",      "string",     ""),        \* "Name" is a prefix of this name
                        F("Debug",   "",      "bool",       ""),
                        F("In",      "",      "struct",     "Inner"),
                        F("Ptr",     "ref",   "ptr",        "Inner"),
                        F("Opt",     "",      "pstr",       ""),        \* *string: <<>> (nil) or <<text>>
                        F("Tags",    "",      "slice",      ""),
                        F("hidden",  "",      "unexported", "") >>,
           Inner |-> << F("Val",     "",      "int",        ""),
                        F("Note",    "memo",  "string",     ""),
                        F("Sub",     "",      "struct",     "Leaf") >>,  \* a third level
           Leaf  |-> << F("X",       "",      "int",        "") >>]

Fields(type) == {Schema[type][i] : i \in 1 .. Len(Schema[type])}
FieldOf == [type \in DOMAIN Schema |-> [nm \in {f.name : f \in Fields(type)} |-> CHOOSE f \in Fields(type) : f.name = nm]]
FieldNames(type) == DOMAIN FieldOf[type]
Field(type, name) == FieldOf[type][name]
IsStructish(f) == f.kind \in {"struct", "ptr"}

RECURSIVE ZeroS(_)
Zero(f) == CASE f.kind \in {"int", "unexported"} -> 0
             [] f.kind = "string" -> ""
             [] f.kind = "bool"   -> FALSE
             [] f.kind = "slice"  -> <<>>
             [] f.kind = "struct" -> ZeroS(f.type)
             [] f.kind \in {"ptr", "pstr"} -> <<>>
ZeroS(type) == [nm \in FieldNames(type) |-> Zero(Field(type, nm))]
ZT == ZeroS("T")
ZI == ZeroS("Inner")
With(t, nm, v) == [t EXCEPT ![nm] = v]

\* ======================================================================================================
\* (1) ApplyOther: the deep merge
\* ======================================================================================================
RECURSIVE MergeS(_, _, _)
MergeF(f, t, o) ==
    CASE f.kind = "struct"     -> MergeS(f.type, t, o)
      [] f.kind = "ptr"        -> IF o = <<>> THEN t
                                  ELSE <<MergeS(f.type, IF t = <<>> THEN ZeroS(f.type) ELSE t[1], o[1])>>
      \* a pointer to a scalar: nil leaves the target alone; non-nil allocates a nil target and overwrites the
      \* pointee unless it is the zero text
      [] f.kind = "pstr"       -> IF o = <<>> THEN t ELSE IF o[1] # "" THEN o ELSE IF t = <<>> THEN <<"">> ELSE t
      [] f.kind = "unexported" -> t
      [] OTHER                 -> IF o = Zero(f) THEN t ELSE o
MergeS(type, t, o) == [nm \in FieldNames(type) |-> MergeF(Field(type, nm), t[nm], o[nm])]
Merge(t, o) == MergeS("T", t, o)

\* ======================================================================================================
\* (3) documents (JSON objects; also the denotation of a JSON object given as a value text in (2))
\* A document is a function key -> value; the value for a struct / struct pointer field is a document.
\* A key addresses the field whose json name (alias if tagged, else the field name) equals it, ignoring case.
\* ======================================================================================================
DocKeys(f, doc) == IF f.kind = "unexported" THEN {} ELSE {k \in DOMAIN doc : Upper(k) = f.json}
RECURSIVE DocAssign(_, _, _)
DocAssignF(f, cur, doc) ==
    IF DocKeys(f, doc) = {} THEN cur
    ELSE LET v == doc[CHOOSE k \in DocKeys(f, doc) : TRUE]
         IN CASE f.kind = "struct" -> DocAssign(f.type, cur, v)
              [] f.kind = "ptr"    -> <<DocAssign(f.type, IF cur = <<>> THEN ZeroS(f.type) ELSE cur[1], v)>>
              [] f.kind = "pstr"   -> <<v>>
              [] OTHER             -> v
DocAssign(type, cur, doc) == [nm \in FieldNames(type) |-> DocAssignF(Field(type, nm), cur[nm], doc)]
\* the universes never name one field twice in a document
DocUnambiguous(type, doc) == \A f \in Fields(type) : Cardinality(DocKeys(f, doc)) <= 1

\* ======================================================================================================
\* (2) keys and value texts
\* ======================================================================================================
\* --- what a value text denotes for a field of each kind -----------------------------------------------
Bad == [ok |-> FALSE]
Ok(v) == [ok |-> TRUE, v |-> v]
\* text; denotation for int, string, bool, slice fields; for struct / struct pointer fields (a document)
Tok(text, i, s, b, sl, st) == [text |-> text, int |-> i, string |-> s, pstr |-> s, bool |-> b, slice |-> sl, struct |-> st, ptr |-> st]
Bare(text, i, b) == Tok(text, i, Ok(text), b, Bad, Bad)     \* an unquoted text is itself for a string field
ListAB == <<"a", "b">>
Obj1 == [val |-> 2]
Obj2 == [memo |-> "z", VAL |-> 3]
ObjX == [x |-> 7]
V == [one    |-> Bare("1", Ok(1), Bad),
      zero   |-> Bare("0", Ok(0), Bad),
      abc    |-> Bare("abc", Bad, Bad),
      float  |-> Bare("1.5", Bad, Bad),
      yes    |-> Bare("yes", Bad, Bad),
      true   |-> Bare("true", Bad, Ok(TRUE)),
      false  |-> Bare("false", Bad, Ok(FALSE)),
      quoted |-> Tok("\"q s\"", Bad, Ok("q s"), Bad, Bad, Bad),          \* a JSON string
      qempty |-> Tok("\"\"", Bad, Ok(""), Bad, Bad, Bad),                 \* the zero string, explicitly
      halfq  |-> Bare("\"abc", Bad, Bad),
      eq     |-> Bare("a=b", Bad, Bad),                                     \* (an environment entry is NAME=a=b)                                 \* not quoted: a bare text
      list   |-> Tok(ToJson(ListAB), Bad, Ok(ToJson(ListAB)), Bad, Ok(ListAB), Bad),
      obj1   |-> Tok(ToJson(Obj1), Bad, Ok(ToJson(Obj1)), Bad, Bad, Ok(Obj1)),
      obj2   |-> Tok(ToJson(Obj2), Bad, Ok(ToJson(Obj2)), Bad, Bad, Ok(Obj2)),
      objx   |-> Tok(ToJson(ObjX), Bad, Ok(ToJson(ObjX)), Bad, Bad, Ok(ObjX)),
      objbad |-> Bare("{\"val\":\"x\"}", Bad, Bad)]                       \* an object whose member has the wrong type

\* --- which field path a key addresses (declarative) ---------------------------------------------------
\* the upper-cased names a field answers to
Names(f) == {f.uname} \cup (IF f.alias # "" THEN {f.ualias} ELSE {})
\* all <<path string, path as field names>> below a struct type, for an (upper-cased) separator
RECURSIVE PathStrings(_, _)
PathStrings(type, SEP) ==
    UNION {LET f == Schema[type][i]
           IN {<<nm, <<f.name>>>> : nm \in Names(f)}
              \cup (IF IsStructish(f)
                    THEN {<<nm \o SEP \o sp[1], <<f.name>> \o sp[2]>> : nm \in Names(f), sp \in PathStrings(f.type, SEP)}
                    ELSE {})
           : i \in 1 .. Len(Schema[type])}
\* the separators the contract speaks about: non-empty and not occurring inside a name or alias
RECURSIVE Contains(_, _)
Contains(s, x) == Len(x) <= Len(s) /\ (HasPrefix(s, x) \/ Contains(SubSeq(s, 2, Len(s)), x))
AllNames == UNION {Names(f) : f \in Fields("T") \cup Fields("Inner") \cup Fields("Leaf")}
SepOK(sep) == sep # "" /\ \A nm \in AllNames : ~Contains(nm, Upper(sep))
EnvPrefix(prefix, sep) == IF prefix = "" THEN "" ELSE Upper(prefix) \o Upper(sep)
\* the set of field paths the key addresses (empty: the key is ignored)
Addressed(key, prefix, sep) ==
    LET K == Upper(key)
        P == EnvPrefix(prefix, sep)
    IN IF ~HasPrefix(K, P) THEN {}
       ELSE {sp[2] : sp \in {x \in PathStrings("T", Upper(sep)) : x[1] = CutPrefix(K, P)}}
RECURSIVE FieldAt(_, _)
FieldAt(type, path) == LET f == Field(type, path[1]) IN IF Len(path) = 1 THEN f ELSE FieldAt(f.type, Tail(path))
RECURSIVE Exported(_, _)
Exported(type, path) == LET f == Field(type, path[1])
                        IN f.kind # "unexported" /\ (Len(path) = 1 \/ Exported(f.type, Tail(path)))

\* --- assigning one key ---------------------------------------------------------------------------------
\* The value of field f after being assigned the token tok (which f can take).  For a JSON object assigned
\* to a struct (pointer) the members the object names get their values; the others are reset (mode "reset",
\* what the code does) or kept (mode "keep") - the comments do not say, both are allowed.
Modes == {"reset", "keep"}
NewValue(f, cur, tok, mode) ==
    LET d == tok[f.kind]
    IN CASE f.kind = "struct" -> DocAssign(f.type, IF mode = "reset" THEN ZeroS(f.type) ELSE cur, d.v)
         [] f.kind = "ptr"    -> <<DocAssign(f.type, IF mode = "reset" \/ cur = <<>> THEN ZeroS(f.type) ELSE cur[1], d.v)>>
         [] f.kind = "pstr"   -> <<d.v>>
         [] OTHER             -> d.v
\* set the field at path, allocating nil pointers on the way
RECURSIVE SetPath(_, _, _, _, _)
SetPath(type, val, path, tok, mode) ==
    LET f == Field(type, path[1])
        cur == val[f.name]
    IN IF Len(path) = 1 THEN With(val, f.name, NewValue(f, cur, tok, mode))
       ELSE IF f.kind = "struct" THEN With(val, f.name, SetPath(f.type, cur, Tail(path), tok, mode))
       ELSE With(val, f.name, <<SetPath(f.type, IF cur = <<>> THEN ZeroS(f.type) ELSE cur[1], Tail(path), tok, mode)>>)

\* does the pair (path, token) change anything under the contract?  Unexported fields are never updated, a
\* text the field cannot take leaves the field alone.
Effective(path, tok) == Exported("T", path) /\ tok[FieldAt("T", path).kind].ok
\* A call is [prefix, sep, kvs : key -> token, res : key -> what the key resolves to].  The resolution is
\* computed once per call of the universe (Resolved below): path = the field path addressed (<<>>: none),
\* eff = the pair changes something.
ResolveKey(prefix, sep, key, tok) ==
    LET ps == Addressed(key, prefix, sep)
        path == IF ps = {} THEN <<>> ELSE CHOOSE p \in ps : TRUE
    IN [ukey |-> Upper(key), n |-> Cardinality(ps), path |-> path, eff |-> ps # {} /\ Effective(path, tok),
        unexported |-> ps # {} /\ ~Exported("T", path),
        badvalue |-> ps # {} /\ Exported("T", path) /\ ~tok[FieldAt("T", path).kind].ok]
ThePath(call, key) == call.res[key].path
Hits(call, key) == call.res[key].eff
AssignOne(t, call, key, mode) ==
    IF Hits(call, key) THEN SetPath("T", t, ThePath(call, key), call.kvs[key], mode) ELSE t

\* --- a whole call: the keys in SOME order ----------------------------------------------------------------
\* all orders of a finite set, as sequences
RECURSIVE Perms(_)
Perms(S) == IF S = {} THEN {<<>>} ELSE UNION {{<<x>> \o p : p \in Perms(S \ {x})} : x \in S}
RECURSIVE FoldKeys(_, _, _)
FoldKeys(ts, call, order) ==       \* ts: set of values so far
    IF order = <<>> THEN ts
    ELSE FoldKeys({AssignOne(t, call, order[1], m) : t \in ts, m \in Modes}, call, Tail(order))
\* every value the call may leave behind
KVResults(t, call) == UNION {FoldKeys({t}, call, p) : p \in Perms(DOMAIN call.kvs)}

\* two keys of a call are in the documented corner if one addresses a field the other addresses too, or
\* something inside it
IsPrefixSeq(a, b) == Len(a) <= Len(b) /\ SubSeq(b, 1, Len(a)) = a
Conflict(call, k1, k2) == /\ Hits(call, k1) /\ Hits(call, k2)
                          /\ (IsPrefixSeq(ThePath(call, k1), ThePath(call, k2)) \/ IsPrefixSeq(ThePath(call, k2), ThePath(call, k1)))
Independent(call) == \A k1, k2 \in DOMAIN call.kvs : k1 # k2 => ~Conflict(call, k1, k2)
\* flags the harness needs to name a disagreement: the call holds a text its field cannot take / addresses
\* an unexported field (the contract: nothing happens for that key)
HasBadValue(call) == \E k \in DOMAIN call.kvs : call.res[k].badvalue
HasUnexported(call) == \E k \in DOMAIN call.kvs : call.res[k].unexported

\* ======================================================================================================
\* The universe of calls
\* ======================================================================================================
I(val, note, x) == [Val |-> val, Note |-> note, Sub |-> [X |-> x]]
Full == [Port |-> 2, Name |-> "b", NameSfx |-> "t", Debug |-> TRUE, In |-> I(4, "n", 6),
         Ptr |-> <<I(5, "y", 7)>>, Opt |-> <<"o">>, Tags |-> <<"b", "c">>, hidden |-> 0]
InitTrees == << ZT,
                [Port |-> 1, Name |-> "a", NameSfx |-> "", Debug |-> FALSE, In |-> I(1, "", 0),
                 Ptr |-> <<I(0, "p", 2)>>, Opt |-> <<"">>, Tags |-> <<"a">>, hidden |-> 7],
                [Port |-> 0, Name |-> "b", NameSfx |-> "s", Debug |-> TRUE, In |-> I(0, "m", 3),
                 Ptr |-> <<>>, Opt |-> <<>>, Tags |-> <<>>, hidden |-> 0] >>

\* --- ApplyOther arguments ----------------------------------------------------------------------------
Others == { ZT, Full,
            With(ZT, "Port", 1), With(ZT, "Name", "a"), With(ZT, "NameSfx", "s"), With(ZT, "Debug", TRUE),
            With(ZT, "In", With(ZI, "Val", 2)), With(ZT, "In", With(ZI, "Note", "m")),
            With(ZT, "Ptr", <<ZI>>),                       \* a non-nil pointer to a zero struct: allocates, changes no member
            With(ZT, "Ptr", <<With(ZI, "Val", 3)>>), With(ZT, "Ptr", <<With(ZI, "Note", "z")>>),
            With(ZT, "Tags", <<"a">>),
            With(ZT, "In", With(ZI, "Sub", [X |-> 6])), With(ZT, "Ptr", <<With(ZI, "Sub", [X |-> 7])>>),
            With(ZT, "Opt", <<"o">>), With(ZT, "Opt", <<"">>),   \* a non-nil pointer to the zero text: allocates only
            With(With(ZT, "Port", 2), "hidden", 5) }       \* a non-zero unexported field: must be ignored
OtherOps == {[op |-> "Other", other |-> o] : o \in Others}

\* --- documents ---------------------------------------------------------------------------------------------
Docs == { [port |-> 1],
          [title |-> "a", Debug |-> TRUE],
          [PORT |-> 0, title |-> "", debug |-> FALSE],           \* zero values that ARE present overwrite
          [in |-> [VAL |-> 2]], [In |-> [memo |-> "m"]],
          [ref |-> [val |-> 3]], [REF |-> [Memo |-> "z"]],
          [tags |-> <<"a", "b">>],
          [in |-> [sub |-> [X |-> 8]], ref |-> [Sub |-> [x |-> 9]]], [opt |-> "d"],
          [nope |-> 1, namesfx |-> "s", in |-> [nope |-> 2]],    \* unknown keys are ignored
          [hidden |-> 3, port |-> 2],                            \* unexported fields are never updated
          [port |-> 2, title |-> "b", namesfx |-> "t", debug |-> TRUE, in |-> [val |-> 4, memo |-> "n", sub |-> [x |-> 6]],
           ref |-> [val |-> 5, memo |-> "y"], opt |-> "", tags |-> <<"c">>],
          [x |-> 0] }                                             \* nothing T knows: the identity
LoadOps == {[op |-> "Load", doc |-> d] : d \in Docs}
\* documents that cannot be loaded (the harness writes the text): an error is returned, the value is open
BadLoadOps == {[op |-> "LoadBad", text |-> "{\"port\": 1"], [op |-> "LoadBad", text |-> "{\"port\": \"x\"}"]}

\* --- key/value calls -------------------------------------------------------------------------------------
Call(p, s, kvs) == [op |-> "KV", prefix |-> p, sep |-> s, kvs |-> kvs, usep |-> Upper(s), upfx |-> EnvPrefix(p, s),
                    res |-> [k \in DOMAIN kvs |-> ResolveKey(p, s, k, kvs[k])]]
S(k, v) == Call("app", "_", k :> v)                     \* one key, the usual prefix and separator
Singles ==
    { \* leaves by name, in any case
      S("app_port", V.one), S("APP_PORT", V.zero), S("App_pOrt", V.one),
      S("app_name", V.abc), S("app_name", V.true), S("app_name", V.qempty), S("app_name", V.halfq),
      S("app_namesfx", V.abc), S("APP_NAMESFX", V.list), S("app_namesfx", V.eq),
      S("app_debug", V.true), S("APP_Debug", V.false),
      S("app_tags", V.list),
      \* by alias
      S("app_title", V.quoted), S("APP_TITLE", V.one),
      \* nested, through the struct and through the (possibly nil) pointer, names and aliases
      S("app_in_val", V.one), S("APP_IN_VAL", V.zero), S("app_in_memo", V.abc), S("app_In_Note", V.quoted),
      S("app_ptr_val", V.one), S("app_ref_val", V.zero), S("app_ref_memo", V.abc), S("APP_PTR_NOTE", V.quoted),
      S("app_ref_note", V.qempty),
      \* three levels
      S("app_in_sub_x", V.one), S("app_ref_sub_x", V.one), S("APP_PTR_SUB_X", V.zero), S("app_in_sub", V.objx), S("app_ref_sub", V.objx),
      \* a pointer to a string
      S("app_opt", V.abc), S("APP_OPT", V.quoted), S("app_opt", V.qempty), S("app_opt", V.one),
      \* a JSON object for a struct / struct pointer field
      S("app_in", V.obj1), S("APP_IN", V.obj2), S("app_ref", V.obj1), S("app_ptr", V.obj2),
      \* texts the field cannot take
      S("app_port", V.abc), S("app_port", V.float), S("app_debug", V.yes), S("app_tags", V.one), S("app_in", V.abc),
      S("app_ref", V.objbad), S("app_ptr_val", V.abc), S("app_in_val", V.true),
      \* an unexported field
      S("app_hidden", V.one),
      \* keys that address nothing
      S("appx_port", V.one), S("ap_port", V.one), S("port", V.one), S("app", V.one), S("app_", V.one),
      S("app_nope", V.one), S("app_in_nope", V.one), S("app_ptr_nope", V.one),
      S("app_port_x", V.one), S("app_title_x", V.abc), S("app_tags_x", V.one), S("app_in_val_x", V.one),
      S("app.port", V.one), S("app__port", V.one), S("app_nam", V.abc), S("app_names", V.abc), S("app_portx", V.one),
      S("app_in_sub_nope", V.one), S("app_in_x", V.one), S("app_sub_x", V.one), S("app_in_sub_x_y", V.one), S("app_opt_x", V.abc),
      S("app_i", V.obj1), S("app_inval", V.one), S("app_memo", V.abc), S("app_val", V.one) }
OtherSeps ==
    { Call("app", ".", "app.port" :> V.one), Call("app", ".", "APP.IN.VAL" :> V.one), Call("app", ".", "app.ref.memo" :> V.abc),
      Call("app", ".", "app_port" :> V.one), Call("app", ".", "app.in_val" :> V.one), Call("app", ".", "app.in" :> V.obj1),
      Call("app", "__", "app__port" :> V.one), Call("app", "__", "APP__in__VAL" :> V.one), Call("app", "__", "app__ptr__memo" :> V.abc),
      Call("app", "__", "app_port" :> V.one), Call("app", "__", "app__in_val" :> V.one),
      Call("app", "_q_", "app_q_port" :> V.one), Call("app", "_q_", "app_Q_in_q_val" :> V.one), Call("app", "_Q_", "app_q_ref_q_memo" :> V.abc),
      Call("app", "_q_", "app_port" :> V.one),
      Call("app", ".", "app.in.sub.x" :> V.one), Call("app", "__", "app__ref__sub__x" :> V.one), Call("app", "_q_", "app_q_in_Q_sub_q_x" :> V.one),
      Call("app", "__", "app__in__sub_x" :> V.one) }
OtherPrefixes ==
    { Call("", "_", "port" :> V.one), Call("", "_", "IN_VAL" :> V.one), Call("", "_", "ref_memo" :> V.abc),
      Call("", "_", "app_port" :> V.one), Call("", "_", "_port" :> V.one),
      Call("App", "_", "APP_PORT" :> V.one), Call("APP", "_", "app_debug" :> V.true),
      Call("my_app", "_", "my_app_port" :> V.one), Call("my_app", "_", "MY_APP_in_val" :> V.one), Call("my_app", "_", "my_port" :> V.one),
      Call("my_app", "_", "app_port" :> V.one) }
Multis ==
    { \* independent keys: every order gives the same value
      Call("app", "_", ("app_port" :> V.one) @@ ("app_name" :> V.abc) @@ ("APP_DEBUG" :> V.true)),
      Call("app", "_", ("app_in_val" :> V.one) @@ ("app_in_memo" :> V.abc)),
      Call("app", "_", ("app_in_sub_x" :> V.one) @@ ("app_in_val" :> V.zero) @@ ("app_opt" :> V.abc)),
      Call("app", "_", ("app_ref_sub_x" :> V.one) @@ ("app_ptr_val" :> V.one)),
      Call("app", "_", ("app_in_sub" :> V.objx) @@ ("app_in_sub_x" :> V.one)),          \* (parent and child: open)
      Call("app", "_", ("app_ptr_val" :> V.one) @@ ("app_ref_memo" :> V.abc)),          \* both allocate the same nil pointer
      Call("app", "_", ("appx_port" :> V.one) @@ ("app_tags" :> V.list) @@ ("app_in_val" :> V.zero)),
      Call("app", "_", ("app_ptr_nope" :> V.one) @@ ("app_ptr_val" :> V.one)),
      Call("app", "_", ("app_in" :> V.obj1) @@ ("app_ref" :> V.obj2) @@ ("app_title" :> V.quoted)),
      Call("", "_", ("port" :> V.one) @@ ("in_memo" :> V.abc) @@ ("TAGS" :> V.list)),
      Call("app", ".", ("app.in.val" :> V.one) @@ ("app.ptr.val" :> V.one) @@ ("app_port" :> V.one)),
      \* the documented corner: parent and child, or one leaf twice - any order may win
      Call("app", "_", ("app_in" :> V.obj1) @@ ("app_in_memo" :> V.abc)),
      Call("app", "_", ("app_ref" :> V.obj1) @@ ("app_ptr_val" :> V.one)),
      Call("app", "_", ("app_port" :> V.one) @@ ("APP_PORT" :> V.zero)),
      Call("app", "_", ("app_name" :> V.abc) @@ ("app_title" :> V.quoted)),
      \* a bad text does not stop the other keys
      Call("app", "_", ("app_port" :> V.abc) @@ ("app_debug" :> V.true)),
      Call("app", "_", ("app_in_val" :> V.float) @@ ("app_in_memo" :> V.abc) @@ ("app_tags" :> V.list)) }
KVCalls == Singles \cup OtherSeps \cup OtherPrefixes \cup Multis
Ops == OtherOps \cup LoadOps \cup BadLoadOps \cup KVCalls

\* ======================================================================================================
\* The state machine: any sequence of up to Depth calls
\* ======================================================================================================
\* every value the contract allows after the call
Results(t, o) == CASE o.op = "Other"   -> {Merge(t, o.other)}
                   [] o.op = "Load"    -> {DocAssign("T", t, o.doc)}
                   [] o.op = "LoadBad" -> {t}
                   [] o.op = "KV"      -> KVResults(t, o)
\* what the harness gets: the call as the real API takes it, the value the behaviour continues with, and every
\* value the contract allows (if the real value is another allowed one, the behaviour is not continued)
StepRec(o, t2, alts) ==
    CASE o.op = "Other"   -> [op |-> "Other", other |-> o.other, unexported |-> (o.other.hidden # 0), tree |-> t2, alts |-> alts]
      [] o.op = "Load"    -> [op |-> "Load", doc |-> o.doc, tree |-> t2, alts |-> alts]
      [] o.op = "LoadBad" -> [op |-> "LoadBad", text |-> o.text, open |-> TRUE]
      [] o.op = "KV"      -> [op |-> "KV", prefix |-> o.prefix, sep |-> o.sep, kvs |-> [k \in DOMAIN o.kvs |-> o.kvs[k].text],
                              badvalue |-> HasBadValue(o), unexported |-> HasUnexported(o), tree |-> t2, alts |-> alts]

Init == /\ \E i \in Inits : tree = InitTrees[i]
        /\ n = 0
        /\ hist = <<[op |-> "New", tree |-> tree]>>
Do(o) == /\ n < Depth
         /\ LET alts == Results(tree, o)
            IN \E t2 \in alts :
                  /\ tree' = t2
                  /\ n' = IF o.op = "LoadBad" THEN Depth ELSE n + 1
                  /\ hist' = Append(hist, StepRec(o, t2, alts))
Next == \E o \in Ops : Do(o)
vars == <<tree, n, hist>>
View == <<tree, n>>
Spec == Init /\ [][Next]_vars
Emit == EmitHist(hist')

\* ======================================================================================================
\* What TLC checks on every reachable value
\* ======================================================================================================
TypeOK == /\ DOMAIN tree = FieldNames("T")
          /\ tree.Ptr = <<>> \/ (Len(tree.Ptr) = 1 /\ DOMAIN tree.Ptr[1] = FieldNames("Inner"))
\* the universe stays inside what the contract speaks about
IsQuoted(s) == Len(s) >= 2 /\ SubSeq(s, 1, 1) = "\"" /\ SubSeq(s, Len(s), Len(s)) = "\""
UniverseOK == /\ \A x \in DOMAIN V : ~IsQuoted(V[x].text) => V[x].string = Ok(V[x].text)    \* a bare text is itself
              /\ \A c \in KVCalls : SepOK(c.sep) /\ \A k \in DOMAIN c.kvs : c.res[k].n <= 1
              /\ \A d \in Docs : DocUnambiguous("T", d)
ASSUME UniverseOK
\* (1) the laws of the deep merge
MergeLaws == /\ Merge(tree, ZT) = tree                                          \* a zero value is the identity
             /\ Merge(tree, tree) = tree                                        \* so is the value itself
             /\ \A o \in Others :
                   /\ Merge(Merge(tree, o), o) = Merge(tree, o)                 \* idempotent
                   /\ With(Merge(ZT, o), "hidden", o.hidden) = o                \* a zero target becomes o (exported part)
                   \* associative (on the values reached before the last call: the law does not depend on the target)
                   /\ n < Depth => \A o2 \in Others : Merge(Merge(tree, o), o2) = Merge(tree, Merge(o, o2))
\* (2) independent keys commute: one possible value per mode choice, whatever the order; a call of independent
\*     keys none of which assigns a whole struct has exactly one result
AssignsStruct(c) == \E k \in DOMAIN c.kvs : Hits(c, k) /\ IsStructish(FieldAt("T", ThePath(c, k)))
Commute == \A c \in {x \in KVCalls : Cardinality(DOMAIN x.kvs) > 1} :
              Independent(c) =>
                 LET R == {FoldKeys({tree}, c, p) : p \in Perms(DOMAIN c.kvs)}       \* the results, order by order
                 IN /\ Cardinality(R) = 1
                    /\ (~AssignsStruct(c) => \A r \in R : Cardinality(r) = 1)
\*     keys that address nothing change nothing
Ignored == \A c \in KVCalls : (\A k \in DOMAIN c.kvs : ~Hits(c, k)) => KVResults(tree, c) = {tree}
\* (3) loading a document twice is loading it once; the document of a value loads to that value
LoadLaws == \A d \in Docs : DocAssign("T", DocAssign("T", tree, d), d) = DocAssign("T", tree, d)
\* the invariants of the model-checking runs
Guard == n < Depth \/ CheckLeaves
ContractLaws == Guard => (MergeLaws /\ Commute /\ Ignored /\ LoadLaws)
=============================================================================
