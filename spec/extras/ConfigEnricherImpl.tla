------------------------- MODULE ConfigEnricherImpl -------------------------
(* X07 - the algorithms of /repo/config/enricher.go written the way the code   *)
(* computes them, and the statement that they meet the contract                 *)
(* (ConfigEnricher.tla) on every value TLC reaches, for every call of the       *)
(* universe and every iteration order of the key/value map:                     *)
(*                                                                            *)
(*  applyValues(other, target)   other.IsZero() first, then pointer (allocate   *)
(*                               the target, recurse into the pointees), then   *)
(*                               leaf (target.Set(other)), then the field loop  *)
(*  ApplyKeyValues               upper-case separator and key, build the prefix *)
(*                               upper(prefix)+upper(sep) ("" for no prefix),   *)
(*                               strip it, assignStruct on the rest             *)
(*  assignStruct(s, path, sep)   cut the path at the FIRST occurrence of sep,   *)
(*                               walk the fields in declaration order, take the *)
(*                               first whose upper-cased name or alias equals   *)
(*                               the head; rest non-empty: recurse into a copy  *)
(*                               of the struct / into the pointee (a fresh one  *)
(*                               if nil) and store the result only if the rest  *)
(*                               was assigned; rest empty: setFieldValueByString *)
(*  setFieldValueByString        a fresh value of the field's type unmarshalled *)
(*                               from the text, stored as a whole (so a JSON    *)
(*                               object RESETS the members it does not name)    *)
(*                                                                            *)
(* A mismatch between these operators and the code is model drift, never a      *)
(* verdict; the verdicts come from the contract only.  Where the code is known  *)
(* to leave the contract (it panics on a text the field cannot take and on an   *)
(* unexported field) the operators say "panic" and the refinement statement     *)
(* says exactly when.                                                           *)
EXTENDS ConfigEnricher

\* ---- reflect.Value.IsZero -----------------------------------------------------------------------------
RECURSIVE IsZeroS(_, _)
IsZeroV(f, v) == IF f.kind = "struct" THEN IsZeroS(f.type, v) ELSE v = Zero(f)
IsZeroS(type, v) == \A nm \in FieldNames(type) : IsZeroV(Field(type, nm), v[nm])

\* ---- applyValues ----------------------------------------------------------------------------------------
\* (reflect panics on target.Set for an unexported field; the top-level operator reports that separately)
RECURSIVE ImplApplyS(_, _, _)
ImplApplyV(f, o, t) ==
    IF IsZeroV(f, o) THEN t                                                    \* if other.IsZero() { return nil }
    ELSE IF f.kind = "ptr"                                                      \* if target.IsNil() { target.Set(reflect.New(..)) }
         THEN <<ImplApplyS(f.type, o[1], IF t = <<>> THEN ZeroS(f.type) ELSE t[1])>>
    ELSE IF f.kind = "pstr"                                                     \* the same, the pointee is a leaf
         THEN <<IF o[1] = "" THEN (IF t = <<>> THEN "" ELSE t[1]) ELSE o[1]>>
    ELSE IF f.kind # "struct" THEN o                                            \* target.Set(other)
    ELSE ImplApplyS(f.type, o, t)
ImplApplyS(type, o, t) ==
    IF IsZeroS(type, o) THEN t
    ELSE [nm \in FieldNames(type) |-> ImplApplyV(Field(type, nm), o[nm], t[nm])]   \* for fi := 0; fi < other.NumField(); fi++
ImplOtherPanics(o) == o.hidden # 0

\* ---- assignStruct -----------------------------------------------------------------------------------------
\* strings.Index: 0-based, -1 if absent
RECURSIVE IndexFrom(_, _, _)
IndexFrom(s, x, i) == IF i + Len(x) > Len(s) THEN -1
                      ELSE IF SubSeq(s, i + 1, i + Len(x)) = x THEN i ELSE IndexFrom(s, x, i + 1)
Index(s, x) == IndexFrom(s, x, 0)

NotFound == [ok |-> FALSE, panic |-> FALSE, path |-> <<>>]
PanicAt(path) == [ok |-> FALSE, panic |-> TRUE, path |-> path]
Found(v, path) == [ok |-> TRUE, panic |-> FALSE, v |-> v, path |-> path]
Under(nm, r) == IF r.panic THEN [r EXCEPT !.path = <<nm>> \o r.path] ELSE r
MinOf(X) == CHOOSE x \in X : \A y \in X : x <= y

\* setFieldValueByString(f, text): obj := reflect.New(field.Type()); quote a bare text for a string field;
\* json.Unmarshal; field.Set(obj.Elem()).  The denotation table of the contract stands for json.Unmarshal.
ImplSetField(f, tok) ==
    IF f.kind = "unexported" THEN PanicAt(<<f.name>>)                          \* !f.CanSet()
    ELSE LET d == tok[f.kind]
         IN IF ~d.ok THEN PanicAt(<<f.name>>)                                   \* err != nil -> panic
            ELSE Found(CASE f.kind = "struct" -> DocAssign(f.type, ZeroS(f.type), d.v)
                         [] f.kind = "ptr"    -> <<DocAssign(f.type, ZeroS(f.type), d.v)>>
                         [] f.kind = "pstr"   -> <<d.v>>      \* ifStringUnderlying looks through the pointer
                         [] OTHER             -> d.v, <<f.name>>)

RECURSIVE ImplAssign(_, _, _, _, _)
ImplAssign(type, val, path, sep, tok) ==
    LET idx       == Index(path, sep)
        fieldName == IF idx > -1 THEN SubSeq(path, 1, idx) ELSE path
        rest      == IF idx > -1 THEN SubSeq(path, idx + Len(sep) + 1, Len(path)) ELSE ""
        hits      == {i \in 1 .. Len(Schema[type]) : fieldName = Schema[type][i].uname \/ fieldName = Schema[type][i].ualias}
    IN IF fieldName = "" \/ hits = {} THEN NotFound
       ELSE LET f   == Schema[type][MinOf(hits)]                                \* the first field in declaration order
                cur == val[f.name]
            IN IF rest = "" THEN LET r == ImplSetField(f, tok) IN IF r.ok THEN Found(With(val, f.name, r.v), r.path) ELSE r
               ELSE IF f.kind = "unexported" THEN PanicAt(<<f.name>>)           \* f.Interface() of an unexported field
               ELSE IF f.kind = "struct"                                        \* a copy; stored back only if assigned
                    THEN LET r == ImplAssign(f.type, cur, rest, sep, tok)
                         IN IF r.ok THEN Found(With(val, f.name, r.v), <<f.name>> \o r.path) ELSE Under(f.name, r)
               ELSE IF f.kind = "ptr"                                           \* a fresh pointee if nil; stored only if assigned
                    THEN LET r == ImplAssign(f.type, IF cur = <<>> THEN ZeroS(f.type) ELSE cur[1], rest, sep, tok)
                         IN IF r.ok THEN Found(With(val, f.name, <<r.v>>), <<f.name>> \o r.path) ELSE Under(f.name, r)
               ELSE NotFound                                                    \* !isStructPtr: nothing below a leaf

\* ---- ApplyKeyValues, the map iterated in the given order ------------------------------------------------------
RECURSIVE ImplKV(_, _, _)
ImplKV(t, call, order) ==
    IF order = <<>> THEN [panic |-> FALSE, v |-> t]
    ELSE LET SEP == call.usep                     \* strings.ToUpper(sep)
             pfx == call.upfx                     \* makeEnvPrefix: "" or upper(prefix) + upper(sep)
             key == call.res[order[1]].ukey       \* strings.ToUpper(key)   (upper-cased once per call of the universe)
         IN IF ~HasPrefix(key, pfx) THEN ImplKV(t, call, Tail(order))
            ELSE LET r == ImplAssign("T", t, CutPrefix(key, pfx), SEP, call.kvs[order[1]])
                 IN IF r.panic THEN [panic |-> TRUE, v |-> t]
                    ELSE ImplKV(IF r.ok THEN r.v ELSE t, call, Tail(order))

\* ---- refinement ------------------------------------------------------------------------------------------------
\* the deep merge, for every other value without a non-zero unexported field
ApplyRefines == \A o \in Others : ~ImplOtherPanics(o) => ImplApplyS("T", o, tree) = Merge(tree, o)
\* the key resolution: the path the splitting walk finds is the path the key addresses (none: none)
ResolutionRefines ==
    \A c \in KVCalls : \A k \in DOMAIN c.kvs :
        LET P == c.upfx
            K == c.res[k].ukey
            r == IF HasPrefix(K, P) THEN ImplAssign("T", tree, CutPrefix(K, P), c.usep, c.kvs[k]) ELSE NotFound
        IN /\ r.path = c.res[k].path
           /\ r.ok = c.res[k].eff
           /\ r.panic = (c.res[k].badvalue \/ c.res[k].unexported)          \* where the code leaves the contract
\* the whole call, in every iteration order of the map: it panics exactly if the call holds a text its field
\* cannot take or addresses an unexported field; otherwise the value is one the contract allows for that
\* order - namely the one where a JSON object resets the members it does not name
KVRefines ==
    \A c \in KVCalls : \A p \in Perms(DOMAIN c.kvs) :
        LET r == ImplKV(tree, c, p)
        IN /\ r.panic = (HasBadValue(c) \/ HasUnexported(c))
           /\ ~r.panic => r.v \in FoldKeys({tree}, c, p)
Refinement == Guard => (ApplyRefines /\ ResolutionRefines /\ KVRefines)
=============================================================================
