------------------------ MODULE ConfigEnricherTrace ------------------------
(* X07, code -> spec: validation of traces recorded from the real Enricher[T]. *)
(* Every line is one real call as it was made (ApplyOther with its argument,    *)
(* a document load, a key-value call with prefix, separator and the key -> text *)
(* map; the driver draws them from the universe of ConfigEnricher.tla and       *)
(* randomises the case of every letter, the route and the file format) and the  *)
(* real Value() after it.  A line is consumed only if that value is one the     *)
(* contract allows after the call on the previous value (ConfigEnricher!Merge,  *)
(* !DocAssign, !KVResults - the keys are resolved as written in the trace).     *)
(* "New" lines start a fresh enricher (many traces are concatenated).  A call   *)
(* that panicked or returned an error is recorded with a "crash" field, which   *)
(* is never accepted.                                                           *)
EXTENDS ConfigEnricher, TraceLib      \* (EXTENDS, not INSTANCE: TLC evaluates the constant tables of the contract once)

VARIABLE l                              \* the line of the trace to consume next

Ev == Trace[l]

\* the token a value text stands for (the driver uses the texts of the spec's universe only)
TokOf(text) == V[CHOOSE x \in DOMAIN V : V[x].text = text]
CallOf(e) == Call(e.prefix, e.sep, [k \in DOMAIN e.kvs |-> TokOf(e.kvs[k])])

Allowed(t, e) == CASE e.op = "Other" -> {Merge(t, e.other)}
                   [] e.op = "Load"  -> {DocAssign("T", t, e.doc)}
                   [] e.op = "KV"    -> KVResults(t, CallOf(e))

TInit == tree = ZT /\ l = 1 /\ n = 0 /\ hist = <<>>

TNew == /\ l <= Len(Trace) /\ Ev.op = "New"
        /\ tree' = Ev.tree /\ l' = l + 1

TCall == /\ l <= Len(Trace) /\ Ev.op # "New"
         /\ ~Has(Ev, "crash")
         /\ Ev.tree \in Allowed(tree, Ev)
         /\ tree' = Ev.tree /\ l' = l + 1

TNext == (TNew \/ TCall) /\ UNCHANGED <<n, hist>>
TSpec == TInit /\ [][TNext]_<<tree, l, n, hist>>
Accepted == AcceptByDiameter
=============================================================================
