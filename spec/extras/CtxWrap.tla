------------------------------- MODULE CtxWrap -------------------------------
(* X10 - contract of context.WrapChannel (/repo/context/wrapper.go) and          *)
(* context.Sleep (/repo/context/sleep.go).                                       *)
(*                                                                             *)
(* Property (in the style of properties.jsonl):                                 *)
(*   "WrapChannel(ch) is a context that is done exactly when ch is closed:       *)
(*    Done() is ch itself; Err() is nil as long as ch is open and, once it is    *)
(*    closed, the same error (an ErrClosed) for every reader for ever; it has no *)
(*    deadline and no values.  Contexts derived from it with the standard        *)
(*    library (WithCancel, WithTimeout, WithValue, and derivations of those) are *)
(*    done, with that error, as soon as ch is closed, and not before unless      *)
(*    cancelled themselves (then they report context.Canceled and the wrapper is *)
(*    untouched).                                                                *)
(*    Sleep(ctx, d) returns nil only after at least d has passed, and returns    *)
(*    ctx.Err() (never nil) promptly once ctx is done, whichever comes first;    *)
(*    with d <= 0 and a live context it returns nil at once."                    *)
(*   Quantifies over: every sequence of reads (Err / Done / Deadline / Value),   *)
(*   closing the channel, deriving up to MaxKids contexts of four kinds before   *)
(*   or after the close, cancelling them, and sleeping on any of the contexts    *)
(*   (d < 0, 0, short, long) with the cancellation arriving before or during     *)
(*   the sleep; a concurrent part (readers polling Err() while the channel is    *)
(*   closed) is validated from recorded traces by CtxWrapTrace.tla.              *)
(*                                                                             *)
(* Time.  Only one-sided facts are prescribed: "nil after a short d" means the   *)
(* measured time is >= d; "promptly" means within a bound of seconds where the   *)
(* alternative is an hour.  When the timer and the cancellation are both due     *)
(* (ctx already done and d <= 0 or short), either result is allowed.             *)
(* The step from "ch closed" to "derived context done" is taken by a goroutine   *)
(* of the standard library: every step that closes the channel prescribes that   *)
(* the derived contexts ARE done afterwards; the harness waits for it with the   *)
(* same generous bound, so every state between two steps is settled.             *)
EXTENDS Integers, Sequences, Emit

CONSTANTS KidKinds,   \* subset of {"cancel", "timeout", "value", "grand"}
          MaxKids,    \* derived contexts per behaviour
          Durs        \* subset of {"neg", "zero", "short", "long"}

VARIABLES closed,   \* ch is closed
          kids,     \* sequence of [kind, st]: st = "live" | "own" (cancelled by its own cancel function) | "parent"
          sl,       \* -1: nobody sleeps; c >= 0: a goroutine sits in Sleep(context c, one hour); 0 is the wrapper
          hist

\* what context c reports from Err(): "nil", "closed" (the wrapper's ErrClosed), "canceled" (context.Canceled)
ErrOf(k, c) == IF c = 0 THEN "nil" ELSE CASE k[c].st = "live" -> "nil" [] k[c].st = "own" -> "canceled" [] k[c].st = "parent" -> "closed"
WErr(cl) == IF cl THEN "closed" ELSE "nil"
CtxErr(cl, k, c) == IF c = 0 THEN WErr(cl) ELSE ErrOf(k, c)
\* every step carries what every reader must see after it (Done() is closed iff Err() is not nil)
Obs(cl, k) == [werr |-> WErr(cl), kerrs |-> [i \in 1 .. Len(k) |-> ErrOf(k, i)]]

Init == /\ closed = FALSE /\ kids = <<>> /\ sl = -1
        /\ hist = <<[op |-> "Wrap"] @@ Obs(FALSE, <<>>)>>

Read(what) == /\ UNCHANGED <<closed, kids, sl>>
              /\ hist' = Append(hist, [op |-> what] @@ Obs(closed, kids))   \* Err / Done / Deadline / Value: all in Obs

\* the harness closes the channel: every live derived context is done (error of the wrapper), a sleeper on any of
\* them, or on the wrapper, wakes up with its context's error
CloseCh == /\ ~closed /\ closed' = TRUE
           /\ kids' = [i \in 1 .. Len(kids) |-> IF kids[i].st = "live" THEN [kids[i] EXCEPT !.st = "parent"] ELSE kids[i]]
           /\ sl' = IF sl >= 0 /\ CtxErr(TRUE, kids', sl) # "nil" THEN -1 ELSE sl
           /\ hist' = Append(hist, (IF sl' # sl THEN [op |-> "CloseCh", woke |-> CtxErr(TRUE, kids', sl)] ELSE [op |-> "CloseCh"])
                                   @@ Obs(TRUE, kids'))

Derive(kind) == /\ Len(kids) < MaxKids
                /\ kids' = Append(kids, [kind |-> kind, st |-> IF closed THEN "parent" ELSE "live"])
                /\ UNCHANGED <<closed, sl>>
                /\ hist' = Append(hist, [op |-> "Derive", kind |-> kind] @@ Obs(closed, kids'))

\* the derived context's own cancel function (WithValue has none); a no-op when it is done already
CancelKid(i) == /\ i \in 1 .. Len(kids) /\ kids[i].kind # "value"
                /\ kids' = [kids EXCEPT ![i].st = IF @ = "live" THEN "own" ELSE @]
                /\ sl' = IF sl = i /\ kids[i].st = "live" THEN -1 ELSE sl
                /\ UNCHANGED closed
                /\ hist' = Append(hist, (IF sl' # sl THEN [op |-> "CancelKid", kid |-> i, woke |-> "canceled"] ELSE [op |-> "CancelKid", kid |-> i])
                                        @@ Obs(closed, kids'))

\* Sleep(context c, d) called and awaited by the harness - except a long sleep on a live context, which stays
\* behind in a goroutine (sl) until the context is done
Sleep(c, d) ==
    /\ c \in 0 .. Len(kids)
    /\ LET e == CtxErr(closed, kids, c) IN
       /\ IF e = "nil" /\ d = "long"
          THEN /\ sl = -1 /\ sl' = c
               /\ hist' = Append(hist, [op |-> "SleepStart", on |-> c] @@ Obs(closed, kids))
          ELSE /\ sl' = sl
               /\ hist' = Append(hist, [op |-> "Sleep", on |-> c, d |-> d,
                                        res |-> IF e = "nil" THEN <<"nil">>              \* live context: the timer (>= d)
                                                ELSE IF d = "long" THEN <<e>>           \* done context: promptly its error
                                                ELSE <<"nil", e>>]                      \* both due: either
                                       @@ Obs(closed, kids))
    /\ UNCHANGED <<closed, kids>>

Next == \/ \E w \in {"Err", "Deadline", "Value"} : Read(w)
        \/ CloseCh
        \/ \E k \in KidKinds : Derive(k)
        \/ \E i \in 1 .. MaxKids : CancelKid(i)
        \/ \E c \in 0 .. MaxKids, d \in Durs : Sleep(c, d)

vars == <<closed, kids, sl, hist>>
Spec == Init /\ [][Next]_vars
View == <<closed, kids, sl>>
Emit == EmitHist(hist')

\* ---- what TLC checks about the contract itself ----------------------------------------------------------
\* done is for ever, and the error never changes once it is not nil
Monotone == [][/\ closed => closed'
               /\ \A i \in 1 .. Len(kids) : ErrOf(kids, i) # "nil" => ErrOf(kids', i) = ErrOf(kids, i)]_vars
\* a derived context is live only while the channel is open; a sleeper sleeps on a live context only
Settled == /\ \A i \in 1 .. Len(kids) : kids[i].st = "live" => ~closed
           /\ sl >= 0 => CtxErr(closed, kids, sl) = "nil"
=============================================================================
