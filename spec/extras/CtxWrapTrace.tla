---------------------------- MODULE CtxWrapTrace ----------------------------
(* X10, code -> spec: recorded executions in which several goroutines poll      *)
(* Err() (and then Done()) of one WrapChannel context while the harness closes   *)
(* the channel.  The contract is the one of CtxWrap.tla read concurrently:       *)
(* there is ONE moment - between the begin and the end of close(ch) - before     *)
(* which every Err() is nil and after which every Err() is the ErrClosed error;  *)
(* each Err() call takes effect at one moment between its begin and its end      *)
(* (linearizability); a reader that got the error sees Done() closed, and        *)
(* Done() is never closed before the close began.                                *)
(* Events (in the order the harness serialised them): reset | rb(r) | re(r, res, *)
(* done) | cb | ce.  Silent steps: Lin(r) (the read takes effect), DoClose.      *)
EXTENDS TraceLib

CONSTANT MaxR
VARIABLES l, closed, cphase, pend
vars == <<l, closed, cphase, pend>>

W == INSTANCE CtxWrap WITH KidKinds <- {}, MaxKids <- 0, Durs <- {}, kids <- <<>>, sl <- -1, hist <- <<>>

Readers == 1 .. MaxR
Ev == Trace[l]

Init == /\ l = 1 /\ closed = FALSE /\ cphase = 0 /\ pend = [r \in Readers |-> "none"]
        /\ HighWaterInit

Reset == /\ l <= Len(Trace) /\ Ev.op = "reset"
         /\ l' = l + 1 /\ closed' = FALSE /\ cphase' = 0 /\ pend' = [r \in Readers |-> "none"]

RB == /\ l <= Len(Trace) /\ Ev.op = "rb" /\ pend[Ev.r] = "none"
      /\ pend' = [pend EXCEPT ![Ev.r] = "open"] /\ l' = l + 1 /\ UNCHANGED <<closed, cphase>>

\* the pending Err() of r takes effect now: it reports what the contract says for the channel's state
Lin(r) == /\ pend[r] = "open"
          /\ pend' = [pend EXCEPT ![r] = W!WErr(closed)]
          /\ UNCHANGED <<l, closed, cphase>>

RE == /\ l <= Len(Trace) /\ Ev.op = "re"
      /\ pend[Ev.r] = Ev.res                  \* "nil" or "closed"; a panic or another error matches nothing
      /\ Ev.res = "closed" => Ev.done         \* Done() was polled after Err()
      /\ Ev.done => closed
      /\ pend' = [pend EXCEPT ![Ev.r] = "none"] /\ l' = l + 1 /\ UNCHANGED <<closed, cphase>>

CB == /\ l <= Len(Trace) /\ Ev.op = "cb" /\ cphase = 0
      /\ cphase' = 1 /\ l' = l + 1 /\ UNCHANGED <<closed, pend>>
DoClose == /\ cphase = 1 /\ ~closed /\ closed' = TRUE /\ UNCHANGED <<l, cphase, pend>>
CE == /\ l <= Len(Trace) /\ Ev.op = "ce" /\ cphase = 1 /\ closed
      /\ cphase' = 2 /\ l' = l + 1 /\ UNCHANGED <<closed, pend>>

Next == Reset \/ RB \/ RE \/ CB \/ CE \/ DoClose \/ \E r \in Readers : Lin(r)
Spec == Init /\ [][Next]_vars

Explore  == HighWater(l)
Accepted == AcceptByHighWater
=============================================================================
