------------------------------ MODULE FileTree ------------------------------
(* X08 - contract of the directory-tree helpers of /repo/files/files.go:        *)
(* CopyDir, RemoveFiles, IsDirEmpty, EnsureDirExists, ListDir, WriteTo,          *)
(* CreateRandomDir / CreateRandomFileName, ZipFolder + UnzipToFolder, GetRoot.   *)
(*                                                                             *)
(* Property (in the style of properties.jsonl):                                 *)
(*   "On any directory tree, and whichever way the directory argument is        *)
(*    spelled (plain, with a trailing separator, with a '.' segment):           *)
(*    ListDir(d) returns exactly the entries directly in d (name, is-dir,        *)
(*    size), nothing for a path that is not a directory.                         *)
(*    IsDirEmpty(d) is (true, nil) / (false, nil) for an empty / non-empty       *)
(*    directory and (false, error) for anything else.                            *)
(*    EnsureDirExists(d) returns nil iff afterwards d is a directory: it         *)
(*    creates d with all missing ancestors and touches nothing else; when d or   *)
(*    an ancestor is a regular file it fails and changes nothing.                *)
(*    WriteTo(f, r) makes f a regular file holding exactly the bytes of r (a     *)
(*    longer old content is cut off); it fails, changing nothing, if f's parent  *)
(*    is not a directory or f is a directory.                                    *)
(*    CopyDir(from, to) (disjoint paths): returns nil iff afterwards every       *)
(*    directory / file below from exists below to at the same relative path,     *)
(*    files with the same content; `to` and its missing ancestors are created;   *)
(*    entries of `to` that have no counterpart, `from` itself and everything     *)
(*    outside `to` are unchanged.  It fails when from is not a directory, when   *)
(*    to (or an ancestor) is a regular file, and when a file would have to       *)
(*    replace a directory or vice versa.                                         *)
(*    RemoveFiles(d, test) removes exactly: the files below d for which test     *)
(*    accepted the file and every directory on the way from d to it (test gets   *)
(*    the containing directory's path and the entry's FileInfo), and the         *)
(*    directories that were accepted the same way and whose whole content was    *)
(*    removed; a rejected directory is not entered.  Nothing else changes.       *)
(*    CreateRandomDir(d, pre) creates, CreateRandomFileName(d, pre) only names,  *)
(*    an entry of d that did not exist, whose name starts with pre; two calls    *)
(*    never return the same name.                                                *)
(*    ZipFolder(from, z, filter, recursive); UnzipToFolder(z, to) writes below   *)
(*    `to` exactly the regular files of from that the filter accepts (all of     *)
(*    them / only those directly in from), same relative path and content, and   *)
(*    changes nothing else; ZipFolder of a missing directory fails and leaves    *)
(*    no archive behind.                                                         *)
(*    GetRoot(p) returns (first folder, rest) of a slash-separated name; a name  *)
(*    of one segment is a folder iff it ends with a slash (doc examples)."       *)
(*   Quantifies over: every tree with at most MaxNodes entries over two names,   *)
(*   depth <= 3, file contents empty / short / long (70 000 bytes), empty        *)
(*   directories; every sequence of at most MaxOps of the operations with every  *)
(*   path argument of the universe (missing paths, files where directories are   *)
(*   expected, paths below files), every spelling, four test functions.          *)
(*                                                                             *)
(* Level.  This is the CONTRACT: the tree after each call is given by a          *)
(* declarative condition on paths.  The second part of the module transcribes    *)
(* the two recursive algorithms of the code (RemoveFiles, CopyDir) on the same    *)
(* abstract tree; TLC checks on every reachable tree and every argument that the *)
(* recursion computes what the contract says - and, for CopyDir, that the set of *)
(* arguments where it does not is exactly the set `CopyDeviation` documented      *)
(* below (the code returns nil where the doc comment's reading demands an error). *)
(*                                                                             *)
(* Not specified (kept out of the explored space): CopyDir with one path inside  *)
(* the other (the code recurses until the path name is too long);                *)
(* CreateRandom* below a regular file (the code loops for ever: os.Stat's        *)
(* ENOTDIR is not IsNotExist); ZipFolder of a regular file; the tree left behind *)
(* by a call that failed half-way (steps marked `open`).                         *)
EXTENDS Integers, Sequences, FiniteSets, Emit

CONSTANTS NNames,      \* names used: the first NNames of NameSeq
          MaxDepth,    \* longest path (<= 3)
          Contents,    \* file contents: "e" empty, "x" short, "L" long
          MaxNodes,    \* most entries of an initial tree
          MaxOps,      \* most library calls of a behaviour
          Ops,         \* the operations of this configuration
          Spellings,   \* subset of {"plain", "slash", "dot"}
          ArgDepth     \* longest path used as a directory argument of CopyDir / ZipUnzip

VARIABLES tree,   \* Paths -> "none" | "dir" | content
          n,      \* library calls made so far (0: the harness is still building the tree)
          live,   \* FALSE after a call whose post-state the contract leaves open
          hist

NameSeq == <<"a", "b">>
Names == {NameSeq[i] : i \in 1 .. NNames}

\* a path is a sequence of names relative to the sandbox directory; <<>> is the sandbox directory itself
P1 == {<<x>> : x \in Names}
P2 == {<<x, y>> : x \in Names, y \in Names}
P3 == {<<x, y, z>> : x \in Names, y \in Names, z \in Names}
Paths == {p \in P1 \cup P2 \cup P3 : Len(p) <= MaxDepth}
Root == <<>>
DirArgs == {p \in Paths : Len(p) <= ArgDepth}

Last(p) == p[Len(p)]
Parent(p) == SubSeq(p, 1, Len(p) - 1)
IsPrefix(p, q) == Len(p) <= Len(q) /\ SubSeq(q, 1, Len(p)) = p
StrictBelow(d, q) == IsPrefix(d, q) /\ Len(q) > Len(d)
Rel(d, q) == SubSeq(q, Len(d) + 1, Len(q))

At(t, p) == IF p = Root THEN "dir" ELSE IF p \in Paths THEN t[p] ELSE "none"
IsFileAt(t, p) == At(t, p) \notin {"none", "dir"}
IsDirAt(t, p) == At(t, p) = "dir"
UnderFile(t, p) == \E k \in 1 .. Len(p) - 1 : IsFileAt(t, SubSeq(p, 1, k))   \* a proper ancestor is a regular file
Nodes(t) == {p \in Paths : t[p] # "none"}
Children(t, d) == {p \in Nodes(t) : Len(p) = Len(d) + 1 /\ IsPrefix(d, p)}
BelowOf(t, d) == {p \in Nodes(t) : StrictBelow(d, p)}
Valid(t) == \A p \in Nodes(t) : IsDirAt(t, Parent(p))
\* d and all its ancestors become directories (os.MkdirAll)
MkdirAll(t, d) == [q \in Paths |-> IF IsPrefix(q, d) THEN "dir" ELSE t[q]]

\* what the harness reads back from the sandbox after every step
TreeOut(t) == {[p |-> p, w |-> t[p]] : p \in Nodes(t)}

\* ---- building the initial tree (harness: os.Mkdir / os.WriteFile), every tree exactly once ---------------
RECURSIVE Ord(_, _)
Ord(prefix, depth) == IF depth = 0 THEN <<>>
                      ELSE LET One(i) == <<prefix \o <<NameSeq[i]>> >> \o Ord(prefix \o <<NameSeq[i]>>, depth - 1) IN
                           IF NNames = 1 THEN One(1) ELSE One(1) \o One(2)
PathSeq == Ord(<<>>, MaxDepth)                       \* parents before children
Idx(p) == CHOOSE i \in 1 .. Len(PathSeq) : PathSeq[i] = p
Mk(p, w) == /\ n = 0 /\ Cardinality(Nodes(tree)) < MaxNodes
            /\ IsDirAt(tree, Parent(p))
            /\ \A q \in Nodes(tree) : Idx(q) < Idx(p)
            /\ tree' = [tree EXCEPT ![p] = w]
            /\ UNCHANGED <<n, live>>
            /\ hist' = Append(hist, [op |-> "Mk", path |-> p, w |-> w, tree |-> TreeOut(tree')])

Init == /\ tree = [p \in Paths |-> "none"] /\ n = 0 /\ live = TRUE
        /\ hist = <<[op |-> "Init", tree |-> {}]>>

CanCall(op) == op \in Ops /\ live /\ n < MaxOps
\* directory arguments worth trying: the path exists, or at least the place where it would be (its parent) does;
\* paths further away from the tree behave like the nearest missing one (EnsureDirExists tries them all)
Near(d) == d = Root \/ At(tree, Parent(d)) # "none"
\* a call whose result (and the tree afterwards) the contract fixes
Done(t, step) == /\ tree' = t /\ n' = n + 1 /\ live' = TRUE
                 /\ hist' = Append(hist, step @@ [tree |-> TreeOut(t)])
\* a call that must fail and may leave anything behind: nothing is compared afterwards, the behaviour ends
Open(step) == /\ tree' = tree /\ n' = n + 1 /\ live' = FALSE
              /\ hist' = Append(hist, step @@ [open |-> TRUE])

(* ================================ the contract, call by call ================================= *)

\* ---- ListDir ---------------------------------------------------------------------------------------------
Entries(t, d) == IF IsDirAt(t, d) THEN {[name |-> Last(c), w |-> t[c]] : c \in Children(t, d)} ELSE {}
ListDir(d, sp) == /\ CanCall("ListDir") /\ Near(d)
                  /\ Done(tree, [op |-> "ListDir", path |-> d, sp |-> sp, entries |-> Entries(tree, d)])

\* ---- IsDirEmpty ------------------------------------------------------------------------------------------
IsDirEmpty(d, sp) == /\ CanCall("IsDirEmpty") /\ Near(d)
                     /\ Done(tree, IF IsDirAt(tree, d)
                                   THEN [op |-> "IsDirEmpty", path |-> d, sp |-> sp, err |-> "nil", empty |-> Children(tree, d) = {}]
                                   ELSE [op |-> "IsDirEmpty", path |-> d, sp |-> sp, err |-> "error", empty |-> FALSE])

\* ---- EnsureDirExists -------------------------------------------------------------------------------------
CanBeDir(t, d) == ~IsFileAt(t, d) /\ ~UnderFile(t, d)
EnsureDirExists(d, sp) ==
    /\ CanCall("EnsureDirExists")
    /\ IF CanBeDir(tree, d)
       THEN Done(MkdirAll(tree, d), [op |-> "EnsureDirExists", path |-> d, sp |-> sp, err |-> "nil"])
       ELSE Done(tree, [op |-> "EnsureDirExists", path |-> d, sp |-> sp, err |-> "error",
                        why |-> IF IsFileAt(tree, d) THEN "is-file" ELSE "under-file"])

\* ---- WriteTo ---------------------------------------------------------------------------------------------
WriteTo(f, c) ==
    /\ CanCall("WriteTo")
    /\ IF IsDirAt(tree, Parent(f)) /\ ~IsDirAt(tree, f)
       THEN Done([tree EXCEPT ![f] = c], [op |-> "WriteTo", path |-> f, data |-> c, err |-> "nil"])
       ELSE Done(tree, [op |-> "WriteTo", path |-> f, data |-> c, err |-> "error"])

\* ---- CreateRandomDir / CreateRandomFileName ----------------------------------------------------------------
\* The random entry is not part of the abstract tree: the harness checks it (inside d, prefix, new, directory or
\* absent), calls once more to see a different name, and removes what was created.
CreateRandom(d, pre, mk) ==
    /\ CanCall("CreateRandom") /\ CanBeDir(tree, d)
    /\ Done(IF mk THEN MkdirAll(tree, d) ELSE tree,
            [op |-> "CreateRandom", path |-> d, prefix |-> pre, mkdir |-> mk, err |-> "nil"])

\* ---- RemoveFiles -----------------------------------------------------------------------------------------
\* the test functions of the harness: accept everything / regular files only / every name but "b" /
\* only entries whose containing directory is the start directory (shows which path test() is given)
TestFns == {"all", "files", "notb", "top"}
Test(tf, t, start, c) == CASE tf = "all" -> TRUE
                           [] tf = "files" -> t[c] # "dir"
                           [] tf = "notb" -> Last(c) # "b"
                           [] tf = "top" -> Parent(c) = start
\* test accepted q and every directory between start and q
Reached(tf, t, start, q) == \A k \in Len(start) + 1 .. Len(q) : Test(tf, t, start, SubSeq(q, 1, k))
Removed(tf, t, start) == {q \in BelowOf(t, start) :
                             /\ Reached(tf, t, start, q)
                             /\ IsDirAt(t, q) => \A r \in BelowOf(t, q) : Reached(tf, t, start, r)}
RemoveResult(tf, t, start) == [q \in Paths |-> IF q \in Removed(tf, t, start) THEN "none" ELSE t[q]]
RemoveFiles(d, tf, sp) ==
    /\ CanCall("RemoveFiles") /\ Near(d) /\ (~IsDirAt(tree, d) => tf = "all")
    /\ IF IsDirAt(tree, d)
       THEN Done(RemoveResult(tf, tree, d), [op |-> "RemoveFiles", path |-> d, test |-> tf, sp |-> sp, err |-> "nil"])
       ELSE Done(tree, [op |-> "RemoveFiles", path |-> d, test |-> tf, sp |-> sp, err |-> "any"])

\* ---- CopyDir ---------------------------------------------------------------------------------------------
Disjoint(from, to) == ~IsPrefix(from, to) /\ ~IsPrefix(to, from)
Dest(from, to, q) == to \o Rel(from, q)
Fits(t, from, to) == \A q \in BelowOf(t, from) : Len(Dest(from, to, q)) <= MaxDepth
\* a file would have to replace a directory, or a directory a file
Clash(t, from, to) == \E q \in BelowOf(t, from) :
                          \/ IsDirAt(t, q) /\ IsFileAt(t, Dest(from, to, q))
                          \/ IsFileAt(t, q) /\ IsDirAt(t, Dest(from, to, q))
CopyFails(t, from, to) == ~IsDirAt(t, from) \/ ~CanBeDir(t, to) \/ Clash(t, from, to)
\* the three situations in which the CODE returns nil although the call cannot have done what the doc comment says
\* (EnsureDirExists answers nil for a regular file; ListDir of something that is not a directory is empty); the
\* second part of the module proves that these are exactly the arguments where the code's recursion deviates
OnlyEmptyDirsOntoFiles(t, from, to) ==
    \A q \in BelowOf(t, from) : LET d == Dest(from, to, q) IN
        /\ IsFileAt(t, q) => ~IsDirAt(t, d)
        /\ (IsDirAt(t, q) /\ IsFileAt(t, d)) => BelowOf(t, q) = {}
CopyWhy(t, from, to) ==
    IF ~IsDirAt(t, from) THEN (IF UnderFile(t, to) THEN "src-not-dir-dst-below-file" ELSE "src-not-dir")
    ELSE IF ~CanBeDir(t, to) THEN (IF IsFileAt(t, to) /\ BelowOf(t, from) = {} THEN "dst-is-file-src-empty" ELSE "dst-not-dir")
    ELSE IF OnlyEmptyDirsOntoFiles(t, from, to) THEN "only-empty-dirs-onto-files" ELSE "clash"
CopyResult(t, from, to) ==
    [r \in Paths |-> IF IsPrefix(r, to) THEN "dir"
                     ELSE IF IsPrefix(to, r) /\ At(t, from \o Rel(to, r)) # "none" THEN At(t, from \o Rel(to, r))
                     ELSE t[r]]
CopyDir(from, to, sp) ==
    /\ CanCall("CopyDir") /\ Disjoint(from, to) /\ Fits(tree, from, to) /\ Near(from)
    /\ IF CopyFails(tree, from, to)
       THEN Open([op |-> "CopyDir", from |-> from, to |-> to, sp |-> sp, err |-> "error", why |-> CopyWhy(tree, from, to)])
       ELSE Done(CopyResult(tree, from, to), [op |-> "CopyDir", from |-> from, to |-> to, sp |-> sp, err |-> "nil"])

\* ---- ZipFolder; UnzipToFolder (the archive lives outside the tree) -----------------------------------------
\* the harness's filter accepts a file unless its base name is "b"
Selected(t, from, filt, rec) == {q \in BelowOf(t, from) : /\ IsFileAt(t, q)
                                                          /\ filt => Last(q) # "b"
                                                          /\ ~rec => Len(q) = Len(from) + 1}
UnzipClash(t, from, to, S) == \E q \in S : LET d == Dest(from, to, q) IN
                                  \/ IsDirAt(t, d)
                                  \/ \E k \in Len(to) + 1 .. Len(d) - 1 : IsFileAt(t, SubSeq(d, 1, k))
UnzipResult(t, from, to, S) ==
    [r \in Paths |-> IF IsPrefix(r, to) THEN "dir"
                     ELSE IF \E q \in S : Dest(from, to, q) = r THEN t[from \o Rel(to, r)]
                     ELSE IF \E q \in S : StrictBelow(r, Dest(from, to, q)) /\ IsPrefix(to, r) THEN "dir"
                     ELSE t[r]]
ZipUnzip(from, to, filt, rec) ==
    /\ CanCall("ZipUnzip") /\ ~IsFileAt(tree, from) /\ ~UnderFile(tree, from) /\ Near(from)
    /\ LET S == Selected(tree, from, filt, rec)
           step == [op |-> "ZipUnzip", from |-> from, to |-> to, filter |-> filt, recursive |-> rec] IN
       /\ \A q \in S : Len(Dest(from, to, q)) <= MaxDepth
       /\ IF ~IsDirAt(tree, from)
          THEN filt /\ rec /\ Done(tree, step @@ [zerr |-> "error", err |-> "skipped"])
          ELSE IF ~CanBeDir(tree, to) \/ UnzipClash(tree, from, to, S)
          THEN Open(step @@ [zerr |-> "nil", err |-> "error",
                             why |-> IF IsFileAt(tree, to) /\ S = {} THEN "dst-is-file-nothing-selected" ELSE "clash"])
          ELSE Done(UnzipResult(tree, from, to, S), step @@ [zerr |-> "nil", err |-> "nil"])

\* ---- GetRoot (no tree involved) ---------------------------------------------------------------------------
\* the name is (abs ? "/" : "") + segs joined by "/" + (trail and segs not empty ? "/" : "")
GetRoot(abs, segs, trail) ==
    /\ CanCall("GetRoot") /\ n = 0 /\ Nodes(tree) = {}
    /\ Done(tree, [op |-> "GetRoot", abs |-> abs, segs |-> segs, trail |-> trail,
                   root |-> IF segs = <<>> THEN <<>> ELSE IF Len(segs) = 1 /\ ~trail THEN <<>> ELSE <<segs[1]>>,
                   rest |-> IF segs = <<>> THEN <<>> ELSE IF Len(segs) = 1 THEN (IF trail THEN <<>> ELSE segs) ELSE Tail(segs)])

Next ==
    \/ \E p \in Paths, w \in Contents \cup {"dir"} : Mk(p, w)
    \/ \E d \in Paths \cup {Root}, sp \in Spellings :
           ListDir(d, sp) \/ IsDirEmpty(d, sp) \/ (d # Root /\ EnsureDirExists(d, sp)) \/ \E tf \in TestFns : RemoveFiles(d, tf, sp)
    \/ \E f \in Paths, c \in Contents : WriteTo(f, c)
    \/ \E d \in DirArgs \cup {Root}, pre \in {"", "r"}, mk \in BOOLEAN : CreateRandom(d, pre, mk)
    \/ \E from \in DirArgs, to \in DirArgs, sp \in Spellings : CopyDir(from, to, sp)
    \/ \E from \in DirArgs \cup {Root}, to \in DirArgs, filt \in BOOLEAN, rec \in BOOLEAN : ZipUnzip(from, to, filt, rec)
    \/ \E abs \in BOOLEAN, segs \in {<<>>} \cup Paths, trail \in BOOLEAN : GetRoot(abs, segs, trail)

vars == <<tree, n, live, hist>>
Spec == Init /\ [][Next]_vars
View == <<tree, n, live>>
Emit == EmitHist(hist')

(* ============================ implementation-shaped: the two recursions ============================ *)

\* RemoveFiles: finfs := ListDir(path); for each fi: if !test(path, fi) continue; a directory is entered
\* recursively and then os.Remove'd (which fails silently unless it is empty); a file is os.Remove'd
RECURSIVE RemLoop(_, _, _, _, _)
RemLoop(tf, t0, start, t, kids) ==        \* t0: the tree test() looks at (kinds never change), t: being modified
    IF kids = {} THEN t
    ELSE LET c == CHOOSE x \in kids : TRUE
             t1 == IF ~Test(tf, t0, start, c) THEN t
                   ELSE IF t[c] # "dir" THEN [t EXCEPT ![c] = "none"]
                   ELSE LET t2 == RemLoop(tf, t0, start, t, Children(t, c)) IN
                        IF Children(t2, c) = {} THEN [t2 EXCEPT ![c] = "none"] ELSE t2
         IN RemLoop(tf, t0, start, t1, kids \ {c})
RemImpl(tf, t, start) == RemLoop(tf, t, start, t, IF IsDirAt(t, start) THEN Children(t, start) ELSE {})
RemoveImplMeetsContract ==
    \A d \in Paths \cup {Root}, tf \in TestFns : RemImpl(tf, tree, d) = (IF IsDirAt(tree, d) THEN RemoveResult(tf, tree, d) ELSE tree)

\* CopyDir: EnsureDirExists(to) (os.Open succeeds on a regular file too: no error, nothing created);
\* finfos := ListDir(from) (empty unless from is a directory); directories recursively, files via os.Create
EnsureImpl(t, d) == IF At(t, d) # "none" THEN [t |-> t, err |-> FALSE]           \* os.Open worked: directory OR FILE
                    ELSE IF UnderFile(t, d) THEN [t |-> t, err |-> TRUE]         \* ENOTDIR
                    ELSE [t |-> MkdirAll(t, d), err |-> FALSE]
RECURSIVE CopyImpl(_, _, _)
RECURSIVE CopyLoop(_, _, _, _)
CopyLoop(t, from, to, kids) ==
    IF kids = {} THEN [t |-> t, err |-> FALSE]
    ELSE LET c == CHOOSE x \in kids : TRUE
             d == to \o <<Last(c)>>
             r == IF IsDirAt(t, c) THEN CopyImpl(t, c, d)
                  ELSE IF IsDirAt(t, to) /\ ~IsDirAt(t, d) THEN [t |-> [t EXCEPT ![d] = t[c]], err |-> FALSE]
                  ELSE [t |-> t, err |-> TRUE]
         IN IF r.err THEN r ELSE CopyLoop(r.t, from, to, kids \ {c})
CopyImpl(t, from, to) ==
    LET e == EnsureImpl(t, to) IN
    IF e.err THEN e ELSE CopyLoop(e.t, from, to, IF IsDirAt(e.t, from) THEN Children(e.t, from) ELSE {})

\* Where the code returns nil although the doc comment's reading ("copies dir from to dir to") cannot have been
\* carried out (see CopyWhy above).  TLC checks that this is the exact set of arguments on which the code's recursion
\* and the contract disagree about success, and that on success both give the same tree.
CopyDeviation(t, from, to) == CopyWhy(t, from, to) \in {"src-not-dir", "dst-is-file-src-empty", "only-empty-dirs-onto-files"}
CopyImplVsContract ==
    \A from \in DirArgs, to \in DirArgs :
        (Disjoint(from, to) /\ Fits(tree, from, to)) =>
            LET i == CopyImpl(tree, from, to) IN
            IF CopyFails(tree, from, to)
            THEN (~i.err) <=> CopyDeviation(tree, from, to)
            ELSE ~i.err /\ i.t = CopyResult(tree, from, to)

TreeValid == Valid(tree)
=============================================================================
