------------------------------- MODULE HashDir -------------------------------
(* X05 - contract of files.HashDir (/repo/files/hash.go).                      *)
(*                                                                            *)
(* Property (in the style of properties.jsonl):                                *)
(*   "HashDir(path, filter, recursive) is a function of the SELECTED CONTEXT   *)
(*    of the directory and of nothing else: the set of (name relative to path, *)
(*    is-it-a-directory, file data) of the entries that are selected - without *)
(*    recursion the regular files directly in path that the filter accepts,    *)
(*    with recursion every file and directory below path that the filter       *)
(*    accepts.  Two calls return the same hash if the selected contexts are     *)
(*    equal (deterministic; independent of where the directory lives, of the    *)
(*    order in which entries were created, of entries the filter rejects and,   *)
(*    without recursion, of sub-directories and their content) and different    *)
(*    hashes if they differ (renaming, moving, adding, removing a selected      *)
(*    entry or changing its data changes the hash).  A missing path gives       *)
(*    (nil, nil)."                                                              *)
(*   Quantifies over: every tree over the small universe below, every order of  *)
(*   creating / modifying / renaming / moving / removing entries that leads to  *)
(*   it, both values of `recursive`, with and without filter.                   *)
(*   Caveat, outside the explored universe: the code hashes the concatenation   *)
(*   of names and data without separators, so contexts whose concatenations     *)
(*   coincide (file "a" holding "b" / file "ab" holding nothing) collide; the   *)
(*   universe keeps names and data in disjoint alphabets with no name a         *)
(*   concatenation of others, where "different context => different hash" is    *)
(*   exactly collision-freeness of SHA-256.                                     *)
(*                                                                            *)
(* The hash itself is opaque: every step carries the four selected contexts    *)
(* (recursive x filter) of the tree after it, the harness calls HashDir four    *)
(* times after every step and requires over ALL calls of ALL behaviours:        *)
(* equal contexts <=> equal hashes.                                             *)
EXTENDS Integers, Sequences, FiniteSets, Emit

CONSTANTS Contents,    \* file data values, e.g. {"e", "1"}  ("e" stands for the empty file)
          WithSub      \* TRUE: the sub-directory d and its entries are part of the universe

\* the universe of paths, in the byte order of the full names; entries of d need d to exist
\* ("d.x" sorts between "d" and "d/a"; "s.skip" is a directory the filter rejects)
Universe == IF WithSub THEN <<"a", "d", "d.x", "d/a", "d/n.skip", "n.skip", "s.skip">>
                       ELSE <<"a", "b", "d.x", "n.skip">>
Paths    == {Universe[i] : i \in 1 .. Len(Universe)}
Dirs     == {"d", "s.skip"} \cap Paths
InD      == {"d/a", "d/n.skip"} \cap Paths
Rejected == {"d/n.skip", "n.skip", "s.skip"} \cap Paths   \* the filter rejects base names ending in ".skip"

VARIABLES tree,   \* Paths -> "none" | "dir" | data
          hist

IsFile(t, p) == t[p] \notin {"none", "dir"}
ParentOK(t, p) == p \in InD => t["d"] = "dir"

\* ---- the selected context ------------------------------------------------------------------------------
Selected(t, p, rec, filt) ==
    /\ t[p] # "none"
    /\ (filt => p \notin Rejected)
    /\ (~rec => (p \notin InD /\ t[p] # "dir"))
\* as a sequence in universe order of <<name, "dir" or data>>: equal sequences <=> equal contexts
RECURSIVE SelFrom(_, _, _, _)
SelFrom(t, i, rec, filt) ==
    IF i > Len(Universe) THEN <<>>
    ELSE (IF Selected(t, Universe[i], rec, filt) THEN <<[name |-> Universe[i], what |-> t[Universe[i]]]>> ELSE <<>>)
         \o SelFrom(t, i + 1, rec, filt)
Sel(t, rec, filt) == SelFrom(t, 1, rec, filt)

\* every step of a behaviour carries the four selected contexts of the tree AFTER the step; the harness calls
\* HashDir four times after every step
After(t) == [s11 |-> Sel(t, TRUE, TRUE), s10 |-> Sel(t, TRUE, FALSE), s01 |-> Sel(t, FALSE, TRUE), s00 |-> Sel(t, FALSE, FALSE)]

\* the first step: HashDir of a path that does not exist gives (nil, nil); then the empty directory is made
Init == /\ tree = [p \in Paths |-> "none"]
        /\ hist = <<[op |-> "HashMissingThenMkRoot", res |-> "nil"] @@ After(tree)>>

\* ---- mutations of the tree (performed by the harness with os calls) --------------------------------------
Put(p, c) == /\ p \notin Dirs /\ ParentOK(tree, p) /\ tree[p] # c
             /\ tree' = [tree EXCEPT ![p] = c]
             /\ hist' = Append(hist, [op |-> "Put", path |-> p, data |-> c] @@ After(tree'))
Mkdir(p) == /\ p \in Dirs /\ tree[p] = "none"
            /\ tree' = [tree EXCEPT ![p] = "dir"]
            /\ hist' = Append(hist, [op |-> "Mkdir", path |-> p] @@ After(tree'))
\* remove a file, or a directory with everything in it
Remove(p) == /\ tree[p] # "none"
             /\ tree' = [q \in Paths |-> IF q = p \/ (p = "d" /\ q \in InD) THEN "none" ELSE tree[q]]
             /\ hist' = Append(hist, [op |-> "Remove", path |-> p] @@ After(tree'))
\* rename / move a file
Rename(p, q) == /\ p # q /\ IsFile(tree, p) /\ q \notin Dirs /\ tree[q] = "none" /\ ParentOK(tree, q)
                /\ tree' = [tree EXCEPT ![p] = "none", ![q] = tree[p]]
                /\ hist' = Append(hist, [op |-> "Rename", path |-> p, to |-> q] @@ After(tree'))

Next == \/ \E p \in Paths : (\E c \in Contents : Put(p, c)) \/ Mkdir(p) \/ Remove(p) \/ (\E q \in Paths : Rename(p, q))

vars == <<tree, hist>>
Spec == Init /\ [][Next]_vars
View == tree
Emit == EmitHist(hist')

\* ---- the clauses of the property, as theorems about Sel that TLC checks on every reachable tree ------------
TreeOK == \A p \in InD : tree[p] # "none" => tree["d"] = "dir"
\* insensitive to rejected entries, and (without recursion) to directories and what is below them
Insensitive ==
    /\ \A p \in Rejected, c \in Contents \cup {"none", "dir"} :
           Sel([tree EXCEPT ![p] = c], TRUE, TRUE) = Sel(tree, TRUE, TRUE)
           /\ Sel([tree EXCEPT ![p] = c], FALSE, TRUE) = Sel(tree, FALSE, TRUE)
    /\ \A p \in Dirs \cup InD, c \in Contents \cup {"none"} :
           (p \in InD \/ c = "none") => Sel([tree EXCEPT ![p] = IF p \in Dirs /\ c # "none" THEN "dir" ELSE c], FALSE, FALSE) = Sel(tree, FALSE, FALSE)
\* sensitive to every change of a selected entry
Sensitive ==
    \A p \in Paths, c \in Contents \cup {"none"} :
        (p \notin Dirs /\ c # tree[p] /\ (c # "none" => ParentOK(tree, p))) =>
            /\ Sel([tree EXCEPT ![p] = c], TRUE, FALSE) # Sel(tree, TRUE, FALSE)
            /\ (p \notin Rejected => Sel([tree EXCEPT ![p] = c], TRUE, TRUE) # Sel(tree, TRUE, TRUE))
            /\ (p \notin InD => Sel([tree EXCEPT ![p] = c], FALSE, FALSE) # Sel(tree, FALSE, FALSE))
=============================================================================
