------------------------------- MODULE IsOpened -------------------------------
(* X02b - contract of chans.IsOpened (/repo/chans/chans.go).                   *)
(*                                                                            *)
(* Documented: "IsOpened checks the channel ch and returns true if it is still *)
(* opened.  The function may consume value from the channel if any, and it     *)
(* will be lost."  Property as specified here (nothing more is promised):      *)
(*   "IsOpened(ch) never blocks; it returns true for every channel that is not *)
(*    closed; it returns false for a closed channel that holds no value; for a *)
(*    closed channel that still holds values either answer is accepted (the    *)
(*    documentation does not say; the code answers true).  It removes at most  *)
(*    one value from the channel and only the oldest one: the values that      *)
(*    remain are received later in their original order, none is duplicated    *)
(*    and no other value is lost; it never closes the channel."                *)
(*   Quantifies over: capacity, buffered contents, a sender parked on the      *)
(*   channel (its value is handed over when room appears), open/closed, and    *)
(*   every order of Send / Recv / Close / IsOpened calls.                      *)
(*                                                                            *)
(* `q` is everything that has been sent and not received, oldest first: the    *)
(* first min(Len, Cap) values sit in the buffer, one more may be held by a     *)
(* parked sender (Len(q) = Cap + 1).  Whether IsOpened consumes is left open   *)
(* (two successor states); the harness observes which one happened.            *)
EXTENDS Integers, Sequences, Emit

CONSTANTS Cap, MaxSends,
          MaxLen    \* every call sequence of at most MaxLen - 1 calls is a behaviour (hist is part of the state)
VARIABLES q, closed, nsent, hist

Init == q = <<>> /\ closed = FALSE /\ nsent = 0
        /\ hist = <<[op |-> "New", cap |-> Cap]>>

Obs(qq, cl) == [inflight |-> Len(qq), closed |-> cl]

\* the k-th send sends k; it parks if there is no room (at most one parked sender)
Send == /\ ~closed /\ nsent < MaxSends /\ Len(q) <= Cap
        /\ nsent' = nsent + 1 /\ q' = Append(q, nsent + 1) /\ closed' = closed
        /\ hist' = Append(hist, [op |-> "Send", v |-> nsent + 1, parks |-> Len(q) = Cap] @@ Obs(q', closed))

\* closing with a parked sender would make that sender panic: not part of any behaviour
Close == /\ ~closed /\ Len(q) <= Cap
         /\ closed' = TRUE /\ UNCHANGED <<q, nsent>>
         /\ hist' = Append(hist, [op |-> "Close"] @@ Obs(q, TRUE))

\* non-blocking receive by the environment
Recv == /\ UNCHANGED <<closed, nsent>>
        /\ IF q # <<>>
           THEN q' = Tail(q) /\ hist' = Append(hist, [op |-> "Recv", got |-> "value", v |-> Head(q)] @@ Obs(Tail(q), closed))
           ELSE q' = q /\ hist' = Append(hist, [op |-> "Recv", got |-> IF closed THEN "closed" ELSE "nothing", v |-> 0] @@ Obs(q, closed))

ResAllowed == IF ~closed THEN {TRUE} ELSE IF q = <<>> THEN {FALSE} ELSE {TRUE, FALSE}

IsOpenedCall ==
    /\ UNCHANGED <<closed, nsent>>
    /\ \E consume \in (IF q = <<>> THEN {FALSE} ELSE {TRUE, FALSE}) :
       \E r \in ResAllowed :
         /\ q' = IF consume THEN Tail(q) ELSE q
         /\ hist' = Append(hist, [op |-> "IsOpened", res |-> r, resAllowed |-> ResAllowed, consumed |-> consume,
                                  mayConsume |-> q # <<>>] @@ Obs(q', closed))

Next == Send \/ Close \/ Recv \/ IsOpenedCall
vars == <<q, closed, nsent, hist>>
Spec == Init /\ [][Next]_vars
Bound == Len(hist) <= MaxLen
Emit == EmitHist(hist')

\* ---- invariants ----------------------------------------------------------------------------------------
Bounded == Len(q) <= Cap + 1
\* values stay in sending order: whatever IsOpened did, nothing was reordered or duplicated
Ordered == \A i, j \in 1 .. Len(q) : i < j => q[i] < q[j]
=============================================================================
