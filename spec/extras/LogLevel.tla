------------------------------ MODULE LogLevel ------------------------------
(* X11 (part 2) - contract of the logging facade (/repo/logging/logger.go,        *)
(* stdlogger.go): level filtering and the configuration swap.                     *)
(*                                                                             *)
(* Property (in the style of properties.jsonl):                                 *)
(*   "Levels are ordered ERROR < WARN < INFO < DEBUG < TRACE.  A message logged    *)
(*    through a standard logger is written - as exactly one line that carries the  *)
(*    level's name, the logger's name and the formatted message - iff its level is *)
(*    <= the level set last with SetLevel, whenever the logger was created;        *)
(*    GetLevel returns the level set last.  SetConfig swaps the factory: from then *)
(*    on NewLogger, SetLevel and GetLevel are the new configuration's functions    *)
(*    (NewLogger hands the name through, SetLevel the level, GetLevel the result); *)
(*    loggers created before keep working and keep the old configuration's level,  *)
(*    which SetLevel no longer changes."                                           *)
(*   Quantifies over: every sequence of SetLevel / GetLevel / NewLogger / the five *)
(*   logging methods on any logger created so far / SetConfig, all five levels.    *)
(* The level in force before any SetLevel is not documented; every behaviour sets  *)
(* it first.  Levels outside ERROR..TRACE are not specified.                       *)
EXTENDS Integers, Sequences, Emit

CONSTANTS Levels,       \* subset of 0 .. 4 (ERROR = 0 ... TRACE = 4) used with SetLevel
          MsgLevels,    \* levels of the messages logged
          MaxLoggers,   \* loggers created per behaviour
          Swap          \* TRUE: SetConfig is part of the behaviours (these run in a process of their own)

VARIABLES cfg,      \* "std" | "custom": the configuration in force
          stdlvl,   \* level of the standard configuration (-1: not set yet)
          custlvl,  \* level the custom configuration's SetLevelF received last (-1: none)
          loggers,  \* sequence of "std" | "custom": which configuration made logger i
          hist

Init == /\ cfg = "std" /\ stdlvl = -1 /\ custlvl = -1 /\ loggers = <<>>
        /\ hist = <<[op |-> "Start"]>>

SetLevel(l) == /\ IF cfg = "std" THEN stdlvl' = l /\ custlvl' = custlvl ELSE custlvl' = l /\ stdlvl' = stdlvl
               /\ UNCHANGED <<cfg, loggers>>
               /\ hist' = Append(hist, [op |-> "SetLevel", lvl |-> l, to |-> cfg])
Current == IF cfg = "std" THEN stdlvl ELSE custlvl
GetLevel == /\ Current >= 0 /\ UNCHANGED <<cfg, stdlvl, custlvl, loggers>>
            /\ hist' = Append(hist, [op |-> "GetLevel", lvl |-> Current, from |-> cfg])
NewLogger == /\ Len(loggers) < MaxLoggers
             /\ loggers' = Append(loggers, cfg) /\ UNCHANGED <<cfg, stdlvl, custlvl>>
             /\ hist' = Append(hist, [op |-> "NewLogger", id |-> Len(loggers) + 1, by |-> cfg])
\* logger i logs a message of level m: a standard logger writes it iff m <= the standard level; a logger of the
\* custom configuration (the harness's recorder) just receives it
Log(i, m) == /\ i \in 1 .. Len(loggers) /\ (loggers[i] = "std" => stdlvl >= 0)
             /\ UNCHANGED <<cfg, stdlvl, custlvl, loggers>>
             /\ hist' = Append(hist, [op |-> "Log", id |-> i, lvl |-> m, by |-> loggers[i],
                                      emitted |-> IF loggers[i] = "std" THEN m <= stdlvl ELSE TRUE])
SetConfig == /\ Swap /\ cfg = "std" /\ cfg' = "custom"
             /\ UNCHANGED <<stdlvl, custlvl, loggers>>
             /\ hist' = Append(hist, [op |-> "SetConfig"])

Next == \/ \E l \in Levels : SetLevel(l)
        \/ GetLevel \/ NewLogger \/ SetConfig
        \/ \E i \in 1 .. MaxLoggers, m \in MsgLevels : Log(i, m)

vars == <<cfg, stdlvl, custlvl, loggers, hist>>
Spec == Init /\ [][Next]_vars
View == <<cfg, stdlvl, custlvl, loggers>>
Emit == EmitHist(hist')

\* the standard level only moves while the standard configuration is in force
StdFrozen == [][cfg = "custom" => stdlvl' = stdlvl]_vars
=============================================================================
