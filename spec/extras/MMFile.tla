-------------------------------- MODULE MMFile --------------------------------
(* X04 - contract of files.MMFile (/repo/files/mmfile.go): NewMMFile, Grow,     *)
(* Buffer, Size, Close, as a byte array that lives in a file.                    *)
(*                                                                             *)
(* Property (in the style of properties.jsonl):                                 *)
(*   "An MMFile is a window of `size` bytes onto the beginning of a file.        *)
(*    NewMMFile(name, size) fails with ErrInvalid unless size is a positive      *)
(*    multiple of BlockSize (size < 0 means: the file's current size; a missing  *)
(*    file is then an error); it creates / extends the file to `size` with       *)
(*    zero bytes and never shortens or changes existing content.  Grow(n) fails  *)
(*    with ErrInvalid unless n is a multiple of BlockSize larger than the        *)
(*    current size, and otherwise keeps every byte and adds zero bytes.          *)
(*    Buffer(offs, n) fails with ErrInvalid unless 0 <= offs < size, and         *)
(*    otherwise returns exactly the bytes offs .. min(offs+n, size)-1: what was  *)
(*    last written there through any earlier Buffer slice, whatever Grow, Close  *)
(*    and re-open happened in between; after Close every byte written is in the  *)
(*    file.  A failed call changes nothing."                                     *)
(*   Quantifies over: every sequence of New / Grow / write / read / Size /       *)
(*   Close / re-open / external truncation on small files, with offsets and      *)
(*   lengths at, next to and across every boundary (0, block, size, file end).   *)
(*                                                                             *)
(* Scale.  The contract only compares offsets with each other, with the size and *)
(* with multiples of the block size, so it is invariant under any monotone map   *)
(* of positions that sends block boundaries to block boundaries.  The model uses *)
(* a block of B = 4 abstract positions; the harness maps abstract position       *)
(* 4k + a to byte 4096k + (0, 1, 2048, 4095)[a], so abstract position 1 / 3 is   *)
(* "one byte after / before a block boundary".  An abstract cell is the byte     *)
(* range between two consecutive positions; writes fill whole cells.             *)
(* Not specified (kept out of the explored space): Grow(n) on a window that is   *)
(* shorter than the file with n below the file's length (the code truncates the  *)
(* file there), negative Buffer lengths, calls on a closed object other than     *)
(* Close (idempotent) and Buffer (must fail).                                    *)
EXTENDS Integers, Sequences, Emit

CONSTANTS B,          \* abstract block size (4)
          NewSizes,   \* sizes given to NewMMFile (0, non-multiples, multiples; -1 is always tried as well)
          GrowSizes,  \* sizes given to Grow
          Offs,       \* offsets given to Buffer (-1 is always tried as well; a cfg file cannot hold negative numbers)
          Lens,       \* lengths given to Buffer (>= 0)
          Vals,       \* non-zero byte values written
          ExtSizes,   \* lengths the harness truncates the closed file to from outside
          MaxCells    \* files never get longer than this

VARIABLES exists,  \* the file exists
          file,    \* its content, one value per cell (0 = zero bytes)
          open,    \* an MMFile object is open on it
          msize,   \* its mapped size
          hist

Min(a, b) == IF a < b THEN a ELSE b
Zeros(n) == [i \in 1 .. n |-> 0]
SizeOK(n) == n > 0 /\ n % B = 0
Extended(f, n) == IF Len(f) < n THEN f \o Zeros(n - Len(f)) ELSE f

Init == exists = FALSE /\ file = <<>> /\ open = FALSE /\ msize = 0
        /\ hist = <<[op |-> "Init", b |-> B]>>

\* every reply carries what the harness can check after the call: the file's length
After(f) == [flen |-> Len(f)]

New(n) ==
    /\ ~open
    /\ LET sz == IF n < 0 THEN Len(file) ELSE n IN
       IF n < 0 /\ ~exists
       THEN /\ UNCHANGED <<exists, file, open, msize>>
            /\ hist' = Append(hist, [op |-> "New", size |-> n, err |-> "error"] @@ After(file))
       ELSE IF ~SizeOK(sz)
       THEN /\ UNCHANGED <<exists, file, open, msize>>
            /\ hist' = Append(hist, [op |-> "New", size |-> n, err |-> "invalid"] @@ After(file))
       ELSE /\ sz <= MaxCells
            /\ exists' = TRUE /\ open' = TRUE /\ msize' = sz
            /\ file' = Extended(file, sz)
            /\ hist' = Append(hist, [op |-> "New", size |-> n, err |-> "nil", msize |-> sz] @@ After(file'))

Grow(n) ==
    /\ open
    /\ IF msize >= n \/ ~SizeOK(n)
       THEN /\ UNCHANGED <<exists, file, open, msize>>
            /\ hist' = Append(hist, [op |-> "Grow", size |-> n, err |-> "invalid", msize |-> msize] @@ After(file))
       ELSE /\ n <= MaxCells /\ n >= Len(file)            \* see "not specified" above
            /\ msize' = n /\ file' = Extended(file, n)
            /\ UNCHANGED <<exists, open>>
            /\ hist' = Append(hist, [op |-> "Grow", size |-> n, err |-> "nil", msize |-> n] @@ After(file'))

\* Buffer(o, n): the window [o, o + k) with k = min(n, msize - o)
BufOK(o) == open /\ o >= 0 /\ o < msize
BufLen(o, n) == Min(n, msize - o)

\* Buffer(o, n) and fill the returned slice with v
Write(o, n, v) ==
    /\ IF BufOK(o)
       THEN /\ file' = [i \in 1 .. Len(file) |-> IF i > o /\ i <= o + BufLen(o, n) THEN v ELSE file[i]]
            /\ hist' = Append(hist, [op |-> "Write", offs |-> o, n |-> n, v |-> v, err |-> "nil", k |-> BufLen(o, n)] @@ After(file'))
       ELSE /\ file' = file
            /\ hist' = Append(hist, [op |-> "Write", offs |-> o, n |-> n, v |-> v, err |-> IF open THEN "invalid" ELSE "anyerr"] @@ After(file))
    /\ UNCHANGED <<exists, open, msize>>

\* Buffer(o, n) and look at the returned slice
Read(o, n) ==
    /\ UNCHANGED <<exists, file, open, msize>>
    /\ hist' = Append(hist, IF BufOK(o)
                            THEN [op |-> "Read", offs |-> o, n |-> n, err |-> "nil", k |-> BufLen(o, n),
                                  cells |-> SubSeq(file, o + 1, o + BufLen(o, n))] @@ After(file)
                            ELSE [op |-> "Read", offs |-> o, n |-> n, err |-> IF open THEN "invalid" ELSE "anyerr"] @@ After(file))

Size == /\ open /\ UNCHANGED <<exists, file, open, msize>>
        /\ hist' = Append(hist, [op |-> "Size", msize |-> msize] @@ After(file))

\* Close (also on a closed object): afterwards the file holds everything (the harness reads it from disk)
Close == /\ exists
         /\ open' = FALSE /\ UNCHANGED <<exists, file, msize>>
         /\ hist' = Append(hist, [op |-> "Close", err |-> "nil", disk |-> file] @@ After(file))

\* the closed file is cut / extended from outside (os.Truncate): non-block lengths, empty file
ExtTruncate(n) == /\ exists /\ ~open
                  /\ file' = IF n <= Len(file) THEN SubSeq(file, 1, n) ELSE Extended(file, n)
                  /\ UNCHANGED <<exists, open, msize>>
                  /\ hist' = Append(hist, [op |-> "ExtTruncate", size |-> n] @@ After(file'))

Next == \/ \E n \in NewSizes \cup {-1} : New(n)
        \/ \E n \in GrowSizes : Grow(n)
        \/ \E o \in Offs \cup {-1}, n \in Lens : Read(o, n) \/ \E v \in Vals : Write(o, n, v)
        \/ Size \/ Close
        \/ \E n \in ExtSizes : ExtTruncate(n)

vars == <<exists, file, open, msize, hist>>
Spec == Init /\ [][Next]_vars
View == <<exists, file, open, msize>>
Emit == EmitHist(hist')

\* ---- invariants -----------------------------------------------------------------------------------------
WindowInFile == open => (SizeOK(msize) /\ msize <= Len(file))
\* content is never lost: no call on the object makes the file shorter
NeverShrinks == [][open' => Len(file') >= Len(file)]_vars
=============================================================================
