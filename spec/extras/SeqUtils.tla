------------------------------- MODULE SeqUtils -------------------------------
(* X06 - algebraic contracts of the small pure helpers in                      *)
(* /repo/container/sliceutils.go, /repo/container/maputils.go and              *)
(* /repo/strutil/string.go (RemoveDups, SwapEvenOdd, TruncateWithEllipses).     *)
(*                                                                            *)
(* Property (in the style of properties.jsonl):                                *)
(*   "For every input: IndexOf / IndexOfAny return the least index of v or -1; *)
(*    SliceReverse reverses in place (an involution); RemoveDups keeps exactly *)
(*    the first occurrence of every element, in order; SwapEvenOdd swaps the   *)
(*    elements of every complete pair (2k, 2k+1); MergeSlicesUnique returns    *)
(*    every value of any argument exactly once (any order);                    *)
(*    SliceExcludeOverlaps(s1, s2) returns the values only in s1 and the       *)
(*    values only in s2, SliceExludeUniqueS2(s1, s2) the values only in s1 and *)
(*    the values in both (each exactly once, any order; for duplicate-free     *)
(*    arguments); SliceRemoveIdx removes exactly the element at idx (the rest  *)
(*    in any order); SliceCopy returns an equal, independent slice; SliceFill  *)
(*    sets every element to v for every length; CopyMap returns an equal,      *)
(*    independent map (nil for nil); Keys / Values return every key / value    *)
(*    exactly once (nil for an empty map); GetFirst returns some entry of the  *)
(*    map, ok = false iff it is empty; TruncateWithEllipses(s, n), n >= 3,     *)
(*    returns s if it fits and else its first n-3 bytes followed by "...",     *)
(*    never longer than n."                                                    *)
(*   Quantifies over: all pairs of sequences of length <= MaxLen over Vals,    *)
(*   every v and index; fill lengths around the 50-element switch of SliceFill *)
(*   and around powers of two; all maps over Vals; all (length, n) pairs.      *)
(*                                                                            *)
(* The contract definitions are declarative; RemoveDups and SliceFill are also *)
(* written the way the code computes them (in-place compaction with a write    *)
(* index; doubling copy) and TLC checks them against the contract.             *)
EXTENDS Integers, Sequences, FiniteSets, Emit

CONSTANTS Vals, MaxLen, FillLens, StrLens, TruncArgs
VARIABLES c, hist

Range(s) == {s[i] : i \in 1 .. Len(s)}
Seqs == UNION {[1 .. n -> Vals] : n \in 0 .. MaxLen}
NoDups(s) == \A i, j \in 1 .. Len(s) : s[i] = s[j] => i = j

\* ---- contracts ----------------------------------------------------------------------------------------
IndexOf(s, v) == IF v \in Range(s) THEN (CHOOSE i \in 1 .. Len(s) : s[i] = v /\ \A j \in 1 .. i - 1 : s[j] # v) - 1 ELSE -1
Reverse(s) == [i \in 1 .. Len(s) |-> s[Len(s) + 1 - i]]
FirstOcc(s, i) == \A j \in 1 .. i - 1 : s[j] # s[i]
RECURSIVE Keep(_, _)
Keep(s, i) == IF i > Len(s) THEN <<>> ELSE (IF FirstOcc(s, i) THEN <<s[i]>> ELSE <<>>) \o Keep(s, i + 1)
RemoveDups(s) == Keep(s, 1)
SwapEvenOdd(s) == [i \in 1 .. Len(s) |-> IF i % 2 = 1 THEN (IF i < Len(s) THEN s[i + 1] ELSE s[i]) ELSE s[i - 1]]
WithoutIdx(s, i) == SubSeq(s, 1, i) \o SubSeq(s, i + 2, Len(s))          \* i is 0-based
Truncated(len, n) == IF len <= n THEN [keep |-> len, dots |-> FALSE] ELSE [keep |-> n - 3, dots |-> TRUE]

\* ---- implementation-shaped ------------------------------------------------------------------------------
\* strutil.RemoveDups: j := 0; for i, s := range ss { if !found[s] { found[s] = true; ss[j] = ss[i]; j++ } }; return ss[:j]
RECURSIVE DedupLoop(_, _, _, _)
DedupLoop(ss, i, j, found) ==
    IF i > Len(ss) THEN SubSeq(ss, 1, j)
    ELSE IF ss[i] \notin found THEN DedupLoop([ss EXCEPT ![j + 1] = ss[i]], i + 1, j + 1, found \cup {ss[i]})
         ELSE DedupLoop(ss, i + 1, j, found)
\* container.SliceFill: plain loop below 50 elements; else s[0] = v; for j := 1; j < len(s); j *= 2 { copy(s[j:], s[:j]) }
Min(a, b) == IF a < b THEN a ELSE b
RECURSIVE FillLoop(_, _)
FillLoop(s, j) == IF j >= Len(s) THEN s
                  ELSE FillLoop([i \in 1 .. Len(s) |-> IF i > j /\ i <= Min(2 * j, Len(s)) THEN s[i - j] ELSE s[i]], 2 * j)
FillImpl(n, v) == IF n < 50 THEN [i \in 1 .. n |-> v]
                  ELSE FillLoop([i \in 1 .. n |-> IF i = 1 THEN v ELSE 0], 1)

\* ---- cases -------------------------------------------------------------------------------------------------
Maps == UNION {[K -> Vals] : K \in SUBSET Vals}
Cases == [kind : {"seq"}, s1 : Seqs, s2 : Seqs, v : Vals]
         \cup [kind : {"fill"}, n : FillLens, v : Vals]
         \cup [kind : {"trunc"}, len : StrLens, n : TruncArgs]
         \cup [kind : {"map"}, m : Maps]

Init == c \in Cases /\ hist = <<>>

SeqReply(s1, s2, v) ==
    [op |-> "Seq", s1 |-> s1, s2 |-> s2, v |-> v,
     indexOf |-> IndexOf(s1, v),
     reverse |-> Reverse(s1),
     removeDups |-> RemoveDups(s1),
     swapEvenOdd |-> SwapEvenOdd(s1),
     mergeUnique |-> Range(s1) \cup Range(s2),
     dupFree |-> NoDups(s1) /\ NoDups(s2),
     onlyS1 |-> Range(s1) \ Range(s2), onlyS2 |-> Range(s2) \ Range(s1), both |-> Range(s1) \cap Range(s2),
     removeIdx |-> [i \in 1 .. Len(s1) |-> WithoutIdx(s1, i - 1)]]

Do == /\ hist = <<>> /\ c' = c
      /\ hist' = CASE c.kind = "seq"   -> <<SeqReply(c.s1, c.s2, c.v)>>
                   [] c.kind = "fill"  -> <<[op |-> "Fill", n |-> c.n, v |-> c.v]>>
                   [] c.kind = "trunc" -> <<[op |-> "Trunc", len |-> c.len, n |-> c.n] @@ Truncated(c.len, c.n)>>
                   [] c.kind = "map"   -> <<[op |-> "Map", keys |-> DOMAIN c.m, pairs |-> {<<k, c.m[k]>> : k \in DOMAIN c.m}]>>

Next == Do
vars == <<c, hist>>
Spec == Init /\ [][Next]_vars
Emit == EmitHist(hist')

\* ---- theorems TLC checks on every case -------------------------------------------------------------------------
Algebra ==
    c.kind = "seq" =>
        /\ Reverse(Reverse(c.s1)) = c.s1                                          \* involution
        /\ Range(RemoveDups(c.s1)) = Range(c.s1) /\ NoDups(RemoveDups(c.s1))         \* same values, each once
        /\ RemoveDups(RemoveDups(c.s1)) = RemoveDups(c.s1)                            \* idempotent
        /\ DedupLoop(c.s1, 1, 0, {}) = RemoveDups(c.s1)                                \* the code's loop meets the contract
        /\ SwapEvenOdd(SwapEvenOdd(c.s1)) = c.s1                                      \* involution
        /\ (IndexOf(c.s1, c.v) = -1) = (c.v \notin Range(c.s1))
FillOK == c.kind = "fill" => FillImpl(c.n, c.v) = [i \in 1 .. c.n |-> c.v]
TruncOK == c.kind = "trunc" => Truncated(c.len, c.n).keep + (IF Truncated(c.len, c.n).dots THEN 3 ELSE 0) <= c.n
=============================================================================
