---------------------------- MODULE TransportCfg ----------------------------
(* X11 (part 1) - contract of transport.Config (/repo/transport/transport.go):   *)
(* Addr, ScanAddr, String, Apply, GetDefaultGRPCConfig, NewServerListener.        *)
(*                                                                             *)
(* Property (in the style of properties.jsonl):                                 *)
(*   "Addr() is Address + ':' + Port in decimal.  ScanAddr(s) splits s at its     *)
(*    LAST colon: the text before it is the Address (it may contain colons), the  *)
(*    text after it must be a decimal 32-bit integer and is the Port; without a   *)
(*    colon s is the Address and the Port is 0; Network is always empty; a port   *)
(*    that is not a number is an error.  Hence ScanAddr(c.Addr()) gives back      *)
(*    c.Address and c.Port for every config.  String() is a JSON object with the  *)
(*    fields Network, Address, Port holding the config's values.                  *)
(*    c.Apply(o) overwrites exactly the fields of c for which o has a non-zero    *)
(*    value (non-empty Network / Address, Port > 0) and never changes o;          *)
(*    Apply(nil) changes nothing.  GetDefaultGRPCConfig() is a fresh              *)
(*    {tcp, '', 50051} on every call.  NewServerListener(c) listens on            *)
(*    c.Network at c.Addr()."                                                     *)
(*   Quantifies over: every config over the value sets below, every sequence of   *)
(*   Apply calls starting from the default and from the zero config, every        *)
(*   address text x port text of the scan universe.                               *)
(* Not specified: Apply with a negative Port in `other` (the comment says          *)
(* "non-nil values", the code tests Port > 0); the Address / Port returned         *)
(* together with an error.                                                         *)
EXTENDS Integers, Sequences, TLC, Emit

CONSTANTS Nets, Addrs, Ports,     \* field values of configs ("" / 0 are the zero values)
          ScanAddrs, PortTexts     \* ScanAddr universe: text before the last colon, text after it

VARIABLES c,      \* the config Apply works on
          fresh,  \* no Apply yet (the stateless cases are emitted once, from the initial states)
          hist

Configs == [net : Nets, addr : Addrs, port : Ports]
Default == [net |-> "tcp", addr |-> "", port |-> 50051]
Zero    == [net |-> "", addr |-> "", port |-> 0]
NoCfg   == [nil |-> TRUE]

AddrStr(x) == x.addr \o ":" \o ToString(x.port)
\* what the harness checks after every step: the fields, Addr(), String() parsed back, ScanAddr(Addr())
Obs(x) == [net |-> x.net, addr |-> x.addr, port |-> x.port, addrstr |-> AddrStr(x)]

Init == /\ \E k \in {"default", "zero"} :
              /\ c = (IF k = "default" THEN Default ELSE Zero)
              /\ hist = <<[op |-> "New", kind |-> k] @@ Obs(c)>>
        /\ fresh = TRUE

Merge(x, o) == [net  |-> IF o.net # "" THEN o.net ELSE x.net,
                addr |-> IF o.addr # "" THEN o.addr ELSE x.addr,
                port |-> IF o.port > 0 THEN o.port ELSE x.port]
Apply(o) == /\ c' = Merge(c, o) /\ fresh' = FALSE
            /\ hist' = Append(hist, [op |-> "Apply", other |-> o] @@ Obs(c'))
ApplyNil == /\ c' = c /\ fresh' = FALSE
            /\ hist' = Append(hist, [op |-> "Apply", other |-> NoCfg] @@ Obs(c))

\* ---- ScanAddr on arbitrary text ------------------------------------------------------------------------------
\* the decimal 32-bit integers among the port texts
PortVal == ("0" :> 0) @@ ("80" :> 80) @@ ("080" :> 80) @@ ("65535" :> 65535) @@ ("-1" :> -1) @@ ("2147483647" :> 2147483647)
Scan(a, colon, pt) ==
    /\ fresh /\ UNCHANGED <<c, fresh>>
    /\ hist' = Append(hist,
         (IF ~colon THEN [op |-> "Scan", text |-> a, err |-> "nil", saddr |-> a, sport |-> 0]
          ELSE IF pt \in DOMAIN PortVal THEN [op |-> "Scan", text |-> a \o ":" \o pt, err |-> "nil", saddr |-> a, sport |-> PortVal[pt]]
          ELSE [op |-> "Scan", text |-> a \o ":" \o pt, err |-> "error"]) @@ Obs(c))
HasColon(a) == a \in {"::1", "a:b", "[::1]"}

\* ---- NewServerListener on the loopback interface, port chosen by the system ------------------------------------
Listen == /\ c.net = "tcp" /\ c.addr = "127.0.0.1" /\ c.port = 0
          /\ UNCHANGED <<c, fresh>>
          /\ hist' = Append(hist, [op |-> "Listen", err |-> "nil"] @@ Obs(c))

Next == \/ \E o \in Configs : Apply(o)
        \/ ApplyNil
        \/ \E a \in ScanAddrs, pt \in PortTexts : Scan(a, TRUE, pt) \/ (~HasColon(a) /\ Scan(a, FALSE, pt))
        \/ Listen

vars == <<c, fresh, hist>>
Spec == Init /\ [][Next]_vars
View == <<c, fresh>>
Emit == EmitHist(hist')

\* ---- laws of the contract that TLC checks ------------------------------------------------------------------
\* Apply is idempotent, Apply(Zero) is the identity, Apply of a config without zero fields replaces everything
ApplyLaws == \A o \in Configs : /\ Merge(Merge(c, o), o) = Merge(c, o)
                                /\ Merge(c, Zero) = c
                                /\ (o.net # "" /\ o.addr # "" /\ o.port > 0) => Merge(c, o) = o
=============================================================================
