------------------------------- MODULE UlidStep -------------------------------
(* X03 - contract of ulidutils.NextID / PrevID (/repo/ulidutils/ulidutils.go).  *)
(*                                                                            *)
(* Property (in the style of properties.jsonl):                                *)
(*   "For every valid ULID string id (26 Crockford base-32 characters, the     *)
(*    first one at most '7'), NextID(id) is the immediate successor and        *)
(*    PrevID(id) the immediate predecessor of id in string order over valid    *)
(*    ULIDs: PrevID(id) < id < NextID(id) and no valid ULID lies strictly      *)
(*    between; hence NextID(PrevID(id)) = PrevID(NextID(id)) = id.  At the     *)
(*    extremes the functions wrap around: NextID(7ZZZ...Z) = 000...0 and       *)
(*    PrevID(000...0) = 7ZZZ...Z.  A string that is not 26 characters long or  *)
(*    whose first character exceeds '7' makes both functions panic."           *)
(*   Quantifies over: all 128-bit values; explored here for every carry /      *)
(*   borrow length 0..16 bytes, every pivot byte class and prefix class (the   *)
(*   case set below), plus recorded random ids (UlidTrace.tla).                *)
(*                                                                            *)
(* TLC integers are 32-bit, so a ULID is never a number here: the CONTRACT     *)
(* speaks about the string, as a sequence of 26 digits 0..31 (digit order =    *)
(* character order of the Crockford alphabet); the IMPLEMENTATION-shaped part   *)
(* is the code's 16-byte array with its carry / borrow loop, and Digits(b) is  *)
(* the encoding (2 zero bits + 128 bits, cut into 26 groups of 5).              *)
EXTENDS Integers, Sequences, Emit

VARIABLES c, hist

D == 26
Digit == 0 .. 31
Valid(ds) == Len(ds) = D /\ ds[1] <= 7
MinId == [i \in 1 .. D |-> 0]
MaxId == [i \in 1 .. D |-> IF i = 1 THEN 7 ELSE 31]

\* ---- the contract: adjacency in lexicographic order, stated position-wise --------------------------
\* x < y in string order
Less(x, y) == \E p \in 1 .. D : /\ \A i \in 1 .. p - 1 : x[i] = y[i]
                                /\ x[p] < y[p]
\* y is the immediate successor of x: equal up to some position p, y[p] = x[p] + 1, and behind p
\* x is at the top (all 31) and y at the bottom (all 0) - so nothing fits in between
IsSucc(x, y) == \E p \in 1 .. D : /\ \A i \in 1 .. p - 1 : x[i] = y[i]
                                  /\ y[p] = x[p] + 1
                                  /\ \A i \in p + 1 .. D : x[i] = 31 /\ y[i] = 0
\* what NextID / PrevID must return for a valid id
IsNext(x, y) == IF x = MaxId THEN y = MinId ELSE IsSucc(x, y) /\ Valid(y)
IsPrev(x, y) == IF x = MinId THEN y = MaxId ELSE IsSucc(y, x) /\ Valid(y)

\* ---- implementation-shaped: ulid.ULID is [16]byte, big-endian; the two loops of the code ------------
RECURSIVE IncLoop(_, _), DecLoop(_, _)
\* for i := 15; i >= 0; i-- { uID[i] += 1; if uID[i] != 0 { break } }      (i is 1-based here)
IncLoop(b, i) == IF i = 0 THEN b
                 ELSE LET nb == [b EXCEPT ![i] = (b[i] + 1) % 256]
                      IN IF nb[i] # 0 THEN nb ELSE IncLoop(nb, i - 1)
\* for i := 15; i >= 0; i-- { uID[i]--; if uID[i] != 255 { break } }
DecLoop(b, i) == IF i = 0 THEN b
                 ELSE LET nb == [b EXCEPT ![i] = (b[i] + 255) % 256]
                      IN IF nb[i] # 255 THEN nb ELSE DecLoop(nb, i - 1)

Pow2(n) == CASE n = 0 -> 1 [] n = 1 -> 2 [] n = 2 -> 4 [] n = 3 -> 8 [] n = 4 -> 16
             [] n = 5 -> 32 [] n = 6 -> 64 [] n = 7 -> 128
\* bit r (0 = most significant) of the 128-bit value; the two bits in front of it are 0
Bit(b, r) == IF r < 0 THEN 0 ELSE (b[(r \div 8) + 1] \div Pow2(7 - (r % 8))) % 2
\* the string encoding: digit j holds bits 5(j-1)-2 .. 5(j-1)+2
Digits(b) == [j \in 1 .. D |->
                 16 * Bit(b, 5 * (j - 1) - 2) + 8 * Bit(b, 5 * (j - 1) - 1) + 4 * Bit(b, 5 * (j - 1))
                 + 2 * Bit(b, 5 * (j - 1) + 1) + Bit(b, 5 * (j - 1) + 2)]

\* ---- the case set ---------------------------------------------------------------------------------------
\* a prefix of one filler byte value, a pivot byte, and k trailing bytes that are all 0 or all 255:
\* incrementing carries through exactly the trailing 255s, decrementing borrows through the trailing 0s
Fillers == {0, 90, 255}
Pivots  == {0, 1, 127, 128, 254, 255}
Case(k, t, pv, f) == [i \in 1 .. 16 |-> IF i > 16 - k THEN t ELSE IF i = 16 - k THEN pv ELSE f]
ByteCases == {Case(k, t, pv, f) : k \in 0 .. 16, t \in {0, 255}, pv \in Pivots, f \in Fillers}

\* strings that are not valid ULIDs (digits; the harness renders them with the same alphabet)
BadCases == {[i \in 1 .. 25 |-> 1], [i \in 1 .. 27 |-> 1], <<>>,
             [i \in 1 .. D |-> IF i = 1 THEN 8 ELSE 0], [i \in 1 .. D |-> 31]}

Init == /\ c \in [kind : {"bytes"}, b : ByteCases] \cup [kind : {"bad"}, ds : BadCases]
        /\ hist = <<>>

Do == /\ hist = <<>>
      /\ c' = c
      /\ hist' = IF c.kind = "bytes"
                 THEN <<[op |-> "Step", id |-> Digits(c.b), panic |-> FALSE,
                         next |-> Digits(IncLoop(c.b, 16)), prev |-> Digits(DecLoop(c.b, 16))]>>
                 ELSE <<[op |-> "Step", id |-> c.ds, panic |-> TRUE]>>

Next == Do
vars == <<c, hist>>
Spec == Init /\ [][Next]_vars
Emit == EmitHist(hist')

\* ---- refinement: the byte loops produce what the contract demands of the strings ---------------------------
ImplMeetsContract ==
    (hist # <<>> /\ c.kind = "bytes") =>
        LET r == hist[1]
        IN /\ Valid(r.id) /\ Valid(r.next) /\ Valid(r.prev)
           /\ IsNext(r.id, r.next) /\ IsPrev(r.id, r.prev)
           /\ (r.id # MaxId => Less(r.id, r.next))
           /\ (r.id # MinId => Less(r.prev, r.id))
           \* round trips
           /\ Digits(DecLoop(IncLoop(c.b, 16), 16)) = r.id
           /\ Digits(IncLoop(DecLoop(c.b, 16), 16)) = r.id
BadIsInvalid == (c.kind = "bad") => ~Valid(c.ds)
=============================================================================
