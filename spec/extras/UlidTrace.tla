------------------------------ MODULE UlidTrace ------------------------------
(* X03, code -> spec: every line of the trace is one real id (random ULIDs and  *)
(* random 128-bit values with long runs of 00 / FF bytes) with what the real     *)
(* NextID and PrevID returned for it, all as digit sequences.  A line is         *)
(* consumed only if UlidStep's contract (IsNext / IsPrev) holds for it.           *)
EXTENDS TraceLib

VARIABLE l
U == INSTANCE UlidStep WITH c <- 0, hist <- <<>>

Ev == Trace[l]
Init == l = 1
Step == /\ l <= Len(Trace)
        /\ ~Has(Ev, "crash")
        /\ U!Valid(Ev.id) /\ Len(Ev.next) = U!D /\ Len(Ev.prev) = U!D
        /\ U!IsNext(Ev.id, Ev.next)
        /\ U!IsPrev(Ev.id, Ev.prev)
        /\ Ev.nextprev = Ev.id /\ Ev.prevnext = Ev.id      \* NextID(PrevID(id)) = PrevID(NextID(id)) = id
        /\ l' = l + 1
Next == Step
Spec == Init /\ [][Next]_l
Accepted == AcceptByDiameter
=============================================================================
