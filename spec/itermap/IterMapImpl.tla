----------------------------- MODULE IterMapImpl -----------------------------
(* Implementation-shaped model of container/iterable/map.go: the doubly       *)
(* linked list with a trailing sentinel ("last"), per-node state              *)
(* last/ok/deleted, prev/next pointers, iterator reference counts, the head   *)
(* pointer, the key index `vals`, iterator pointers and the node pool, with   *)
(* putVal / delete / next / release / getValue transcribed statement by       *)
(* statement.  TLC checks                                                      *)
(*   - refinement of the contract OrderedMap (same replies for every call),   *)
(*   - structural invariants (ref counts, head, pool discipline),             *)
(*   - the retention bound of property C11.                                    *)
(* Node 0 is nil.  A dereference of nil is a TLC evaluation error, i.e. the   *)
(* model would report the Go panic as an error trace.                          *)
EXTENDS Integers, Sequences, FiniteSets, Emit

CONSTANTS Keys, Iters, MaxAdds

Node == 1 .. (MaxAdds + 1)
Nil == 0
NoKey == ""

VARIABLES h,       \* heap: record of functions over Node: st, prev, next, ref, key, val, gid
          head, last,
          vals,    \* Keys -> Node \cup {Nil}
          itp,     \* Iters -> Node \cup {Nil}   (Nil = no open iterator in this slot)
          nextId,  \* ghost: id of the next insertion (the sentinel's ghost id)
          hist

\* ---------------------------------------------------------------- heap helpers
Free(hh, n) ==  \* pool.Put(n): the node is canonicalised; PoolDiscipline shows it is unreferenced
    [hh EXCEPT !.st[n] = "free", !.prev[n] = Nil, !.next[n] = Nil, !.ref[n] = 0,
               !.key[n] = NoKey, !.val[n] = 0, !.gid[n] = 0]

FreeNodes(hh) == {n \in Node : hh.st[n] = "free"}
PoolGet(hh) == CHOOSE n \in FreeNodes(hh) : \A m \in FreeNodes(hh) : n <= m

\* rlItem.delete(): returns the new heap and the new head (Nil if unchanged)
Delete(hh, n) ==
    IF hh.st[n] = "last" THEN [h |-> hh, head |-> Nil]
    ELSE LET h1 == [hh EXCEPT !.val[n] = 0] IN
         IF h1.ref[n] = 0
         THEN IF h1.prev[n] # Nil
              THEN LET p == h1.prev[n]
                       nx == h1.next[n]
                   IN [h |-> [h1 EXCEPT !.next[p] = nx, !.prev[nx] = p, !.next[n] = Nil, !.prev[n] = Nil],
                       head |-> Nil]
              ELSE LET nx == h1.next[n]
                   IN [h |-> [h1 EXCEPT !.prev[nx] = Nil, !.next[n] = Nil], head |-> nx]
         ELSE [h |-> [h1 EXCEPT !.st[n] = "deleted"], head |-> Nil]

\* Map.next(p): the loop; returns <<heap, head, p>>
RECURSIVE NextLoop(_, _, _)
NextLoop(hh, hd, p) ==
    IF hh.st[p] = "last" THEN <<hh, hd, p>>
    ELSE LET h1 == [hh EXCEPT !.ref[p] = @ - 1] IN
         IF h1.st[p] = "deleted" /\ h1.ref[p] <= 0
         THEN LET np == h1.next[p]
                  d  == Delete(h1, p)
                  hd2 == IF d.head # Nil THEN d.head ELSE hd
                  h2 == Free(d.h, p)
                  h3 == [h2 EXCEPT !.ref[np] = @ + 1]
              IN IF h3.st[np] # "deleted" THEN <<h3, hd2, np>> ELSE NextLoop(h3, hd2, np)
         ELSE LET np == h1.next[p]
                  h3 == [h1 EXCEPT !.ref[np] = @ + 1]
              IN IF h3.st[np] # "deleted" THEN <<h3, hd, np>> ELSE NextLoop(h3, hd, np)

\* Map.getValue(p)
GetValue(hh, hd, p) == IF hh.st[p] = "deleted" THEN NextLoop(hh, hd, p) ELSE <<hh, hd, p>>

\* Map.release(p)   (with the repair: the head returned by delete() is adopted)
Release(hh, hd, p) ==
    LET h1 == [hh EXCEPT !.ref[p] = @ - 1] IN
    IF h1.st[p] = "deleted"
    THEN LET d == Delete(h1, p)
             hd2 == IF d.head # Nil THEN d.head ELSE hd
         IN IF d.h.ref[p] = 0 THEN <<Free(d.h, p), hd2>> ELSE <<d.h, hd2>>
    ELSE <<h1, hd>>

\* ---------------------------------------------------------------- initial state
Init ==
    /\ h = [st   |-> [n \in Node |-> IF n = 1 THEN "last" ELSE "free"],
            prev |-> [n \in Node |-> Nil],
            next |-> [n \in Node |-> Nil],
            ref  |-> [n \in Node |-> 0],
            key  |-> [n \in Node |-> NoKey],
            val  |-> [n \in Node |-> 0],
            gid  |-> [n \in Node |-> IF n = 1 THEN 1 ELSE 0]]
    /\ head = 1 /\ last = 1
    /\ vals = [k \in Keys |-> Nil]
    /\ itp = [i \in Iters |-> Nil]
    /\ nextId = 1
    /\ hist = <<[op |-> "New"]>>

\* ---------------------------------------------------------------------- actions
Add(k) ==
    IF vals[k] # Nil
    THEN /\ UNCHANGED <<h, head, last, vals, itp, nextId>>
         /\ hist' = Append(hist, [op |-> "Add", k |-> k, v |-> nextId, err |-> TRUE])
    ELSE /\ nextId <= MaxAdds
         /\ LET new == PoolGet(h)
                \* putVal(k, v, rliNew) on the sentinel
                h1 == [h EXCEPT !.prev[new] = last, !.next[new] = Nil, !.st[new] = "last",
                                !.gid[new] = nextId + 1,
                                !.next[last] = new, !.st[last] = "ok", !.key[last] = k, !.val[last] = nextId]
            IN /\ h' = h1
               /\ vals' = [vals EXCEPT ![k] = last]
               /\ last' = new
         /\ nextId' = nextId + 1
         /\ UNCHANGED <<head, itp>>
         /\ hist' = Append(hist, [op |-> "Add", k |-> k, v |-> nextId, err |-> FALSE])

Remove(k) ==
    /\ IF vals[k] = Nil
       THEN UNCHANGED <<h, head, vals>>
       ELSE LET rli == vals[k]
                d == Delete(h, rli)
            IN /\ head' = IF d.head # Nil THEN d.head ELSE head
               /\ h' = IF d.h.ref[rli] = 0 THEN Free(d.h, rli) ELSE d.h
               /\ vals' = [vals EXCEPT ![k] = Nil]
    /\ UNCHANGED <<last, itp, nextId>>
    /\ hist' = Append(hist, [op |-> "Remove", k |-> k])

Get(k) ==
    /\ UNCHANGED <<h, head, last, vals, itp, nextId>>
    /\ hist' = Append(hist, IF vals[k] # Nil
                            THEN [op |-> "Get", k |-> k, ok |-> TRUE, v |-> h.val[vals[k]]]
                            ELSE [op |-> "Get", k |-> k, ok |-> FALSE, v |-> 0])

LenOp ==
    /\ UNCHANGED <<h, head, last, vals, itp, nextId>>
    /\ hist' = Append(hist, [op |-> "Len", n |-> Cardinality({k \in Keys : vals[k] # Nil})])

Iterator(i) ==
    /\ itp[i] = Nil
    /\ h' = [h EXCEPT !.ref[head] = @ + 1]
    /\ itp' = [itp EXCEPT ![i] = head]
    /\ UNCHANGED <<head, last, vals, nextId>>
    /\ hist' = Append(hist, [op |-> "Iterator", i |-> i])

HasNext(i) ==
    /\ itp[i] # Nil
    /\ LET g == GetValue(h, head, itp[i])
       IN /\ h' = g[1] /\ head' = g[2] /\ itp' = [itp EXCEPT ![i] = g[3]]
          /\ hist' = Append(hist, [op |-> "HasNext", i |-> i, ok |-> g[1].st[g[3]] # "last"])
    /\ UNCHANGED <<last, vals, nextId>>

\* the body of mapIterator.Next on pointer p: returns <<heap, head, newPtr, has, key, val>>
NextBody(hh, hd, p) ==
    LET g == GetValue(hh, hd, p)
        has == g[1].st[g[3]] # "last"
        k == g[1].key[g[3]]
        v == g[1].val[g[3]]
        n == NextLoop(g[1], g[2], g[3])
    IN <<n[1], n[2], n[3], has, k, v>>

NextOp(i) ==
    /\ itp[i] # Nil
    /\ LET b == NextBody(h, head, itp[i])
       IN /\ h' = b[1] /\ head' = b[2] /\ itp' = [itp EXCEPT ![i] = b[3]]
          /\ hist' = Append(hist, IF b[4] THEN [op |-> "Next", i |-> i, ok |-> TRUE, k |-> b[5], v |-> b[6]]
                                         ELSE [op |-> "Next", i |-> i, ok |-> FALSE, k |-> "", v |-> 0])
    /\ UNCHANGED <<last, vals, nextId>>

Close(i) ==
    /\ itp[i] # Nil
    /\ LET r == Release(h, head, itp[i])
       IN h' = r[1] /\ head' = r[2]
    /\ itp' = [itp EXCEPT ![i] = Nil]
    /\ UNCHANGED <<last, vals, nextId>>
    /\ hist' = Append(hist, [op |-> "Close", i |-> i])

\* Map.First(): it := Iterator(); defer it.Close(); it.Next()
First ==
    /\ LET h0 == [h EXCEPT !.ref[head] = @ + 1]
           b == NextBody(h0, head, head)
           r == Release(b[1], b[2], b[3])
       IN /\ h' = r[1] /\ head' = r[2]
          /\ hist' = Append(hist, IF b[4] THEN [op |-> "First", ok |-> TRUE, k |-> b[5]]
                                         ELSE [op |-> "First", ok |-> FALSE, k |-> ""])
    /\ UNCHANGED <<last, vals, itp, nextId>>

Next == \/ \E k \in Keys : Add(k) \/ Remove(k) \/ Get(k)
        \/ LenOp \/ First
        \/ \E i \in Iters : Iterator(i) \/ HasNext(i) \/ NextOp(i) \/ Close(i)

vars == <<h, head, last, vals, itp, nextId, hist>>
Spec == Init /\ [][Next]_vars

\* --------------------------------------------------- abstraction and refinement
RECURSIVE ListFrom(_, _)
ListFrom(hh, n) == IF n = Nil THEN <<>> ELSE <<n>> \o ListFrom(hh, hh.next[n])
List == ListFrom(h, head)
OkNodes == SelectSeq(List, LAMBDA n : h.st[n] = "ok")
AbsLive == [j \in 1 .. Len(OkNodes) |-> [id |-> h.gid[OkNodes[j]], k |-> h.key[OkNodes[j]], v |-> h.val[OkNodes[j]]]]

Abs == INSTANCE OrderedMap WITH
          live <- AbsLive,
          cur <- [i \in Iters |-> IF itp[i] = Nil THEN -1
                                  ELSE LET c == h.gid[itp[i]]
                                           cand == {AbsLive[j].id : j \in {x \in 1 .. Len(AbsLive) : AbsLive[x].id >= c}}
                                       IN IF cand = {} THEN nextId ELSE CHOOSE m \in cand : \A o \in cand : m <= o]
Refines == Abs!Spec

\* ---------------------------------------------------------------- invariants
InList(n) == \E j \in 1 .. Len(List) : List[j] = n
OpenIters == {i \in Iters : itp[i] # Nil}

\* the list ends with the sentinel, which is `last`; head has no predecessor
Shape == /\ Len(List) >= 1 /\ List[Len(List)] = last /\ h.st[last] = "last"
         /\ h.prev[head] = Nil
         /\ \A j \in 1 .. Len(List) - 1 : h.st[List[j]] \in {"ok", "deleted"} /\ h.prev[List[j + 1]] = List[j]
\* reference counts are exactly the number of iterators parked on the node
RefCounts == \A n \in Node : h.st[n] # "free" => h.ref[n] = Cardinality({i \in Iters : itp[i] = n})
\* nothing in the pool is linked, indexed or pointed to
PoolDiscipline == \A n \in Node : h.st[n] = "free" =>
                     /\ ~InList(n)
                     /\ \A i \in Iters : itp[i] # n
                     /\ \A k \in Keys : vals[k] # n
\* every non-free node is in the list; a deleted node is pinned by an iterator
NoOrphans == \A n \in Node : h.st[n] # "free" => InList(n)
DeletedPinned == \A n \in Node : h.st[n] = "deleted" => h.ref[n] > 0
\* the key index points to exactly the ok nodes
IndexOK == /\ \A k \in Keys : vals[k] # Nil => h.st[vals[k]] = "ok" /\ h.key[vals[k]] = k
           /\ \A n \in Node : h.st[n] = "ok" => vals[h.key[n]] = n
\* ghost ids increase along the list (insertion order is list order)
GidOrder == \A a, b \in 1 .. Len(List) : a < b => h.gid[List[a]] < h.gid[List[b]]

\* property C11: what stays reachable is bounded by live entries + sentinel + pins
LenLive == Cardinality({k \in Keys : vals[k] # Nil})
Retention == /\ Len(List) <= LenLive + 1 + Cardinality(OpenIters)
             /\ OpenIters = {} => /\ Len(List) = LenLive + 1
                                  /\ \A n \in Node : h.st[n] # "deleted"
                                  /\ \A n \in Node : h.ref[n] = 0

View == <<h, head, last, vals, itp, nextId>>
Emit == EmitHist(hist')
=============================================================================
