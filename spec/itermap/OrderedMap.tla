----------------------------- MODULE OrderedMap -----------------------------
(* Contract of iterable.Map (property C10): a map whose entries are iterated *)
(* in insertion order by any number of iterators that stay correct under     *)
(* arbitrary mutation.                                                        *)
(*                                                                            *)
(* Every Add gets the next insertion id.  `live` is the sequence of live      *)
(* entries [id, k, v] in insertion order.  An open iterator is a CURSOR: the  *)
(* id of the oldest live entry it has not passed yet (or nextId if there is   *)
(* none - then an entry added later is exactly the one it will see).          *)
(*   Next    returns the entry at the cursor and moves the cursor to the next *)
(*           live entry; with nothing left it returns ok = FALSE and keeps    *)
(*           the cursor, so later additions are seen;                         *)
(*   HasNext <=> the cursor is at a live entry;                               *)
(*   a new iterator, and First, start at the oldest live entry.               *)
(* Removing the entry under a cursor moves that cursor to the next live       *)
(* entry: never a removed entry, never one twice.                             *)
(* The value stored by Add is the insertion id itself, so a re-added key is   *)
(* distinguishable from its earlier incarnation.                              *)
EXTENDS Integers, Sequences, FiniteSets, Emit

CONSTANTS Keys,      \* key alphabet
          Iters,     \* iterator slots (at most Cardinality(Iters) open at once)
          MaxAdds    \* bound on successful Adds per behaviour (keeps ids finite)

VARIABLES live, cur, nextId, hist

Closed == -1

\* oldest live entry with id >= c, or nextId
Norm(lv, nid, c) ==
    LET cand == {lv[j].id : j \in {x \in 1 .. Len(lv) : lv[x].id >= c}}
    IN IF cand = {} THEN nid ELSE CHOOSE m \in cand : \A o \in cand : m <= o

HasKey(lv, k) == \E j \in 1 .. Len(lv) : lv[j].k = k
EntryOfKey(lv, k) == lv[CHOOSE j \in 1 .. Len(lv) : lv[j].k = k]
EntryOfId(lv, id) == lv[CHOOSE j \in 1 .. Len(lv) : lv[j].id = id]
Without(lv, k) == SelectSeq(lv, LAMBDA e : e.k # k)

\* state s = [live, cur, nextId]; result [s |-> s', res |-> reply]
Apply(s, call) ==
    CASE call.op = "Add" ->
           IF HasKey(s.live, call.k)
           THEN [s |-> s, res |-> [op |-> "Add", k |-> call.k, v |-> s.nextId, err |-> TRUE]]
           ELSE [s |-> [s EXCEPT !.live = Append(@, [id |-> s.nextId, k |-> call.k, v |-> s.nextId]),
                                 !.nextId = @ + 1],
                 res |-> [op |-> "Add", k |-> call.k, v |-> s.nextId, err |-> FALSE]]
      [] call.op = "Remove" ->
           LET lv == Without(s.live, call.k)
           IN [s |-> [s EXCEPT !.live = lv,
                               !.cur = [i \in DOMAIN s.cur |->
                                          IF s.cur[i] = Closed THEN Closed ELSE Norm(lv, s.nextId, s.cur[i])]],
               res |-> [op |-> "Remove", k |-> call.k]]
      [] call.op = "Get" ->
           IF HasKey(s.live, call.k)
           THEN [s |-> s, res |-> [op |-> "Get", k |-> call.k, ok |-> TRUE, v |-> EntryOfKey(s.live, call.k).v]]
           ELSE [s |-> s, res |-> [op |-> "Get", k |-> call.k, ok |-> FALSE, v |-> 0]]
      [] call.op = "Len" -> [s |-> s, res |-> [op |-> "Len", n |-> Len(s.live)]]
      [] call.op = "First" ->
           IF s.live = <<>>
           THEN [s |-> s, res |-> [op |-> "First", ok |-> FALSE, k |-> ""]]
           ELSE [s |-> s, res |-> [op |-> "First", ok |-> TRUE, k |-> s.live[1].k]]
      [] call.op = "Iterator" ->
           [s |-> [s EXCEPT !.cur[call.i] = Norm(s.live, s.nextId, 0)],
            res |-> [op |-> "Iterator", i |-> call.i]]
      [] call.op = "HasNext" ->
           [s |-> s, res |-> [op |-> "HasNext", i |-> call.i, ok |-> s.cur[call.i] # s.nextId]]
      [] call.op = "Next" ->
           IF s.cur[call.i] = s.nextId
           THEN [s |-> s, res |-> [op |-> "Next", i |-> call.i, ok |-> FALSE, k |-> "", v |-> 0]]
           ELSE LET e == EntryOfId(s.live, s.cur[call.i])
                IN [s |-> [s EXCEPT !.cur[call.i] = Norm(s.live, s.nextId, e.id + 1)],
                    res |-> [op |-> "Next", i |-> call.i, ok |-> TRUE, k |-> e.k, v |-> e.v]]
      [] call.op = "Close" ->
           [s |-> [s EXCEPT !.cur[call.i] = Closed], res |-> [op |-> "Close", i |-> call.i]]

\* ---- n calls of Next in a row on iterator i, in closed form (used by OrderedMapTrace for NextN lines, where n is in
\* the hundreds).  NOT a second contract: the invariant NextNAgrees says, on every reachable state of the model, that
\* it is Apply applied n times (number of ok replies, last reply, final state).
RestOf(s, i) == SelectSeq(s.live, LAMBDA e : e.id >= s.cur[i])
NextNDirect(s, i, n) ==
    LET rest == RestOf(s, i)
        m    == Len(rest)
    IN [s    |-> [s EXCEPT !.cur[i] = IF n < m THEN rest[n + 1].id ELSE s.nextId],
        oks  |-> IF n < m THEN n ELSE m,
        last |-> IF n >= 1 /\ n <= m THEN [ok |-> TRUE, k |-> rest[n].k, v |-> rest[n].v]
                 ELSE [ok |-> FALSE, k |-> "", v |-> 0]]
RECURSIVE NextNIter(_, _, _, _, _)
NextNIter(s, i, n, oks, last) ==
    IF n = 0 THEN [s |-> s, oks |-> oks, last |-> last]
    ELSE LET a == Apply(s, [op |-> "Next", i |-> i])
         IN NextNIter(a.s, i, n - 1, oks + (IF a.res.ok THEN 1 ELSE 0), [ok |-> a.res.ok, k |-> a.res.k, v |-> a.res.v])

St == [live |-> live, cur |-> cur, nextId |-> nextId]
NextNAgrees == \A i \in Iters : cur[i] # Closed =>
                 \A n \in 0 .. 4 : NextNDirect(St, i, n) = NextNIter(St, i, n, 0, [ok |-> FALSE, k |-> "", v |-> 0])

\* which calls are legal in state s (an iterator is used only while open; adds are bounded)
Enabled(s, call) ==
    CASE call.op = "Add"      -> HasKey(s.live, call.k) \/ s.nextId <= MaxAdds
      [] call.op = "Iterator" -> s.cur[call.i] = Closed
      [] call.op \in {"HasNext", "Next", "Close"} -> s.cur[call.i] # Closed
      [] OTHER -> TRUE

Calls == {[op |-> "Add", k |-> k] : k \in Keys}
         \cup {[op |-> "Remove", k |-> k] : k \in Keys}
         \cup {[op |-> "Get", k |-> k] : k \in Keys}
         \cup {[op |-> "Len"], [op |-> "First"]}
         \cup {[op |-> o, i |-> i] : o \in {"Iterator", "HasNext", "Next", "Close"}, i \in Iters}

Init == /\ live = <<>>
        /\ cur = [i \in Iters |-> Closed]
        /\ nextId = 1
        /\ hist = <<[op |-> "New"]>>

Do(call) == /\ Enabled(St, call)
            /\ LET a == Apply(St, call)
               IN /\ live' = a.s.live /\ cur' = a.s.cur /\ nextId' = a.s.nextId
                  /\ hist' = Append(hist, a.res)

Next == \E call \in Calls : Do(call)
vars == <<live, cur, nextId, hist>>
Spec == Init /\ [][Next]_vars

\* ---- sanity invariants of the contract itself --------------------------------
Sorted     == \A a, b \in 1 .. Len(live) : a < b => live[a].id < live[b].id
UniqueKeys == \A a, b \in 1 .. Len(live) : a # b => live[a].k # live[b].k
CursorsOK  == \A i \in Iters : cur[i] = Closed \/ cur[i] = Norm(live, nextId, cur[i])
View == <<live, cur, nextId>>
Emit == EmitHist(hist')
=============================================================================
