--------------------------- MODULE OrderedMapTrace ---------------------------
(* Trace validation for C10 and C11 (code -> spec).  Each line is one real    *)
(* call on an iterable.Map with its real reply and the real list statistics   *)
(* (nodes linked, nodes marked deleted, iterators open).  A line is consumed  *)
(* only if                                                                     *)
(*   - the reply is what OrderedMap!Apply prescribes (C10), and               *)
(*   - the retention bound of C11 holds on the real statistics:               *)
(*       nodes <= Len() + 1 + open,  open = 0 => no removed entry linked.      *)
(* CheckReplies / CheckRetention let the two properties be judged separately. *)
EXTENDS TraceLib

CONSTANTS Iters, CheckReplies, CheckRetention

VARIABLES live, cur, nextId, l

OM == INSTANCE OrderedMap WITH Keys <- {}, MaxAdds <- 0, hist <- <<>>

Ev == Trace[l]

CallOf(e) ==
    CASE e.op \in {"Add", "Remove", "Get"} -> [op |-> e.op, k |-> e.k]
      [] e.op \in {"Iterator", "HasNext", "Next", "Close"} -> [op |-> e.op, i |-> e.i]
      [] OTHER -> [op |-> e.op]

Matches(e, res) == \A f \in DOMAIN res : Has(e, f) /\ e[f] = res[f]

\* judged on the real Len() (that Len() is right is C10's business)
RetentionOK(e) ==
    /\ e.nodes <= e.len + 1 + e.open
    /\ e.open = 0 => (e.nodes <= e.len + 1 /\ e.deleted = 0 /\ e.stale = 0)

Init == live = <<>> /\ cur = [i \in Iters |-> -1] /\ nextId = 1 /\ l = 1

New == /\ l <= Len(Trace) /\ Ev.op = "New"
       /\ live' = <<>> /\ cur' = [i \in Iters |-> -1] /\ nextId' = 1 /\ l' = l + 1

\* NextN: the harness called Next n times in a row on iterator i (nothing else in between) and logs how many of the
\* replies said ok and the LAST reply; the contract is OrderedMap!Apply applied n times, in the closed form
\* OrderedMap!NextNDirect (TLC checks NextNAgrees on the model).
NextN == /\ l <= Len(Trace) /\ Ev.op = "NextN" /\ ~Has(Ev, "crash")
         /\ LET r == OM!NextNDirect([live |-> live, cur |-> cur, nextId |-> nextId], Ev.i, Ev.n)
            IN /\ CheckReplies => (Ev.oks = r.oks /\ Ev.ok = r.last.ok /\ Ev.k = r.last.k /\ Ev.v = r.last.v)
               /\ CheckRetention => RetentionOK(Ev)
               /\ live' = r.s.live /\ cur' = r.s.cur /\ nextId' = r.s.nextId
         /\ l' = l + 1

\* The harness forgot an iterator without closing it (it stays open in the real map for ever).  Nothing the
\* user can observe depends on a forgotten iterator, so the abstract state frees its id as Close does.
Drop == /\ l <= Len(Trace) /\ Ev.op = "Drop"
        /\ LET a == OM!Apply([live |-> live, cur |-> cur, nextId |-> nextId], [op |-> "Close", i |-> Ev.i])
           IN /\ CheckRetention => RetentionOK(Ev)
              /\ live' = a.s.live /\ cur' = a.s.cur /\ nextId' = a.s.nextId
        /\ l' = l + 1

\* Types: the same process holds maps of other instantiations (interface-typed keys or values among them); a fixed script
\* ran on each of them, interleaved, and was compared with a plain sequence: no call panicked, no reply differed
Types == /\ l <= Len(Trace) /\ Ev.op = "Types" /\ ~Has(Ev, "crash") /\ Ev.wrong = 0
         /\ UNCHANGED <<live, cur, nextId>> /\ l' = l + 1

Call == /\ l <= Len(Trace) /\ Ev.op \notin {"New", "Drop", "NextN", "Types"} /\ ~Has(Ev, "crash")
        /\ LET a == OM!Apply([live |-> live, cur |-> cur, nextId |-> nextId], CallOf(Ev))
           IN /\ CheckReplies => Matches(Ev, a.res)
              /\ CheckRetention => RetentionOK(Ev)
              /\ live' = a.s.live /\ cur' = a.s.cur /\ nextId' = a.s.nextId
        /\ l' = l + 1

Next == New \/ Call \/ Drop \/ NextN \/ Types
Spec == Init /\ [][Next]_<<live, cur, nextId, l>>
Accepted == AcceptByDiameter
=============================================================================
