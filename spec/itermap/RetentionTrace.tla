---------------------------- MODULE RetentionTrace ----------------------------
(* C11, LRU part (code -> spec).  Each line is a sample of the real cache's    *)
(* internal list statistics taken between calls of a long seeded history       *)
(* (no iterator is open between calls).  The property: the cache holds at most *)
(* its capacity plus a constant, however long the history - i.e. at a sample   *)
(* the list links the live entries and one sentinel, nothing removed, nothing   *)
(* pinned, and the live entries do not exceed the capacity.                     *)
(* GcProbe lines: reachability as the garbage collector sees it - keys and       *)
(* values were pointers with finalizers; `removed` entries left the container    *)
(* (map: Remove with every iterator closed again; cache: eviction, Remove,        *)
(* Clear) and nothing else refers to them: every one of their keys and values     *)
(* was finalized after a few collections, whatever private structure the          *)
(* implementation keeps (pool, free list, index).                                  *)
EXTENDS TraceLib

VARIABLE l

Ev == Trace[l]

SampleOK(e) ==
    /\ e.len <= e.cap
    /\ e.nodes <= e.len + 1
    /\ e.deleted = 0
    /\ e.refsum = 0
    /\ e.inflight = 0
    /\ e.stale = 0          \* no node outside the live entries still references a removed value

\* "plus a constant": two entries of slack (the implementation's trailing list node keeps the key of the entry that used
\* it last); what the property excludes is retention that grows with the history
GcSlack(e) == 2
\* never_resident (cache): keys that were removed while their creation was in progress and whose creation then failed
NeverResident(e) == IF Has(e, "never_resident") THEN e.never_resident ELSE 0
GcOK(e) == /\ e.keys_collected >= e.removed + NeverResident(e) - GcSlack(e)
           /\ e.vals_collected >= e.removed - GcSlack(e)
           /\ e.len = e.live

Init == l = 1
Next == /\ l <= Len(Trace) /\ l' = l + 1
        /\ IF Ev.op = "GcProbe" THEN GcOK(Ev) ELSE SampleOK(Ev)
Spec == Init /\ [][Next]_l
Accepted == AcceptByDiameter
=============================================================================
