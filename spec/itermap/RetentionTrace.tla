---------------------------- MODULE RetentionTrace ----------------------------
(* C11, LRU part (code -> spec).  Each line is a sample of the real cache's    *)
(* internal list statistics taken between calls of a long seeded history       *)
(* (no iterator is open between calls).  The property: the cache holds at most *)
(* its capacity plus a constant, however long the history - i.e. at a sample   *)
(* the list links the live entries and one sentinel, nothing removed, nothing   *)
(* pinned, and the live entries do not exceed the capacity.                     *)
EXTENDS TraceLib

VARIABLE l

Ev == Trace[l]

SampleOK(e) ==
    /\ e.len <= e.cap
    /\ e.nodes <= e.len + 1
    /\ e.deleted = 0
    /\ e.refsum = 0
    /\ e.inflight = 0
    /\ e.stale = 0          \* no node outside the live entries still references a removed value

Init == l = 1
Next == l <= Len(Trace) /\ SampleOK(Ev) /\ l' = l + 1
Spec == Init /\ [][Next]_l
Accepted == AcceptByDiameter
=============================================================================
