--------------------------- MODULE ExpiryRaceTrace ---------------------------
(* C06, in-memory backend (code -> spec): a write of a record WITHOUT expiration  *)
(* races the expiration of the record it replaces while waiters are parked on it.  *)
(* Events of one round:  round(writer)  waitret(w, res)  write(kind, res)  final.   *)
(* Contract:                                                                        *)
(*  - a waiter returns nil (the version changed) or notexist (the key was absent    *)
(*    at some point of its interval: the old record had expired) - never anything   *)
(*    else;                                                                          *)
(*  - if the write succeeded, the record it wrote has no expiration, nobody deletes  *)
(*    it: `final` must find it ("a record ... that has none is never dropped");      *)
(*  - a CasByVersion / Create that lost the race against the expiry (notexist /      *)
(*    exist) leaves the key in the state it found.                                   *)
EXTENDS TraceLib

VARIABLES wrote, l
Ev == Trace[l]

Init == wrote = "none" /\ l = 1

Round == Ev.e = "round" /\ wrote' = "none"
WaitRet == Ev.e = "waitret" /\ Ev.res \in {"nil", "notexist"} /\ wrote' = wrote
Write == /\ Ev.e = "write"
         /\ Ev.res \in (CASE Ev.kind = "cas" -> {"nil", "notexist"}
                          [] Ev.kind = "create" -> {"nil", "exist"}
                          [] OTHER -> {"nil"})
         /\ wrote' = IF Ev.res = "nil" THEN "new" ELSE "none"
Final == /\ Ev.e = "final"
         /\ wrote = "new" => (Ev.present /\ Ev.val = "new" /\ Ev.noexp)
         /\ wrote' = wrote

Next == l <= Len(Trace) /\ l' = l + 1 /\ (Round \/ WaitRet \/ Write \/ Final)
Spec == Init /\ [][Next]_<<wrote, l>>
Accepted == AcceptByDiameter
=============================================================================
