------------------------------- MODULE FarTrace --------------------------------
(* C06 on the Redis backend, with a clock that moves by DAYS (code -> spec).  The   *)
(* model: a record written with an expiration half a day past day `until` (0 =    *)
(* never) is held exactly while until = 0 or until >= now (the clock shows whole   *)
(* days, so no instant looked at is near an expiration) - Advance drops a record   *)
(* the moment its expiration is reached, never earlier, however far ahead it lies  *)
(* (weeks, years, a century: nothing in the contract bounds an expiration).        *)
(* FarSee lists the keys the store still returns (Get, GetMany and ListKeys asked   *)
(* at once; `disagree` counts keys on which the three did not agree).               *)
EXTENDS TraceLib, FiniteSets
VARIABLES l, now, until
vars == <<l, now, until>>
Ev == Trace[l]
Held == {k \in DOMAIN until : until[k] = 0 \/ until[k] >= now}
Init == l = 1 /\ now = 0 /\ until = <<>>
Step == l <= Len(Trace) /\ l' = l + 1
Begin   == Step /\ Ev.op = "FarBegin" /\ now' = 0 /\ until' = <<>>
Put     == Step /\ Ev.op = "FarPut" /\ UNCHANGED now
           /\ until' = [k \in DOMAIN until \cup {Ev.k} |-> IF k = Ev.k THEN Ev.until ELSE until[k]]
Advance == Step /\ Ev.op = "FarAdvance" /\ now' = now + Ev.days /\ UNCHANGED until
See     == Step /\ Ev.op = "FarSee" /\ UNCHANGED <<now, until>>
           /\ Ev.disagree = 0
           /\ {Ev.seen[i] : i \in 1 .. Len(Ev.seen)} = Held
Next == Begin \/ Put \/ Advance \/ See
Spec == Init /\ [][Next]_vars
Accepted == AcceptByDiameter
=============================================================================
