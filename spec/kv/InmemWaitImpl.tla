--------------------------- MODULE InmemWaitImpl ---------------------------
(* C07 - implementation-shaped model of WaitForVersionChange in              *)
(* kvs/inmem/inmem.go, one action per critical section of the Go code.        *)
(*                                                                            *)
(* The code's variables:                                                      *)
(*   s.recs       store (the live records: exactly KvStore's state) plus      *)
(*                zombie[k] # 0: a record that has expired but is still in    *)
(*                the map (expiry is lazy: liveRecord() removes it - and      *)
(*                notifies - when some call next touches the key)             *)
(*   s.verChange  vc[k] = 0 | channel id of the key's current waiters group   *)
(*   *waiter      one struct per channel: cnt[c] (field waiters), c \in closed*)
(*   per call     pc[w], ws[w] (the group it registered in), wexp[w] (the     *)
(*                expiry of the record it saw: arms the timer)                *)
(* Every mutex-protected section is one atomic action:                        *)
(*   Check(w)    lock; liveRecord; return ErrNotExist / nil, or REGISTER in   *)
(*               the key's group (creating it) ; unlock          [:143-159]   *)
(*   Sel*(w)     the select: group channel closed -> loop; ctx done -> cancel *)
(*               path; timer fired -> expiry path                [:169-188]   *)
(*   CtxPath(w)  lock; leaveWaiters; return ctx.Err()            [:170-177]   *)
(*   ExpPath(w)  lock; leaveWaiters; unlock; loop                [:178-182]   *)
(*   leaveWaiters: only if the group is still the key's current one (channel  *)
(*               identity): decrement; the last one closes and removes it     *)
(*   mutations   Put / PutMany / CasByVersion / Delete / Create / Get, each   *)
(*               with the code's own liveRecord and notifyWaiters calls;      *)
(*               notifyWaiters = close the channel + delete the entry         *)
(* close() of a closed channel is a Go panic: the model records it (panic).   *)
(*                                                                            *)
(* The abstract waiter table wt (with the ghost `may`) and the store are the  *)
(* contract's own variables, updated by the contract's own operators, so the  *)
(* refinement mapping is the identity and the substance of                    *)
(*   Refines == KvWait!FineSpec                                               *)
(* is: whenever the code returns r, r \in wt[w].may  (FReturn's guard).       *)
(* TLC checks in addition:                                                    *)
(*   NoLostWakeup   a parked waiter whose condition holds has an enabled      *)
(*                  select branch (its channel is closed / its timer is due / *)
(*                  its ctx is done)                                          *)
(*   NeverStranded  a waiter parked on an open channel is parked on the       *)
(*                  key's CURRENT group, so the next mutation closes it; and  *)
(*                  cnt = number of calls registered in the group             *)
(*   GiveUpQuiet    a waiter that gives up closes no channel another waiter   *)
(*                  is parked on (action property)                            *)
(*   NoResidue      no call in progress => verChange is empty                 *)
(*   NoPanic        no double close                                           *)
(*   Prompt         (fairness on the waiters' steps) Overdue(w) ~> returned   *)
(* Bug # "none" seeds a defect; the thorough tier requires TLC to find each.  *)
EXTENDS Integers, Sequences, FiniteSets, TLC

CONSTANTS Keys, Waiters,
          MaxCalls,   \* WaitForVersionChange invocations per behaviour
          MaxMuts,    \* store calls per behaviour (time passing is not counted)
          MaxNow,     \* 0: no expiry in this configuration
          Bug         \* "none" or the name of a seeded defect

VARIABLES store, now, nextVer, known, wt,              \* the contract's state
          zombie, vc, cnt, closed, pc, ws, wexp, panic, \* the code's state
          ncalls, nmuts

KW == INSTANCE KvWait WITH WithExp <- TRUE, WithMany <- TRUE, calls <- 0, hist <- <<>>
KV == INSTANCE KvStore WITH Pats <- {}, InVals <- {"x"}, ExpClasses <- {"none", "s1"}, ManyLen <- 2, hist <- <<>>

St == [store |-> store, now |-> now, nextVer |-> nextVer, known |-> known]
Chans == 1 .. (Cardinality(Keys) + Cardinality(Waiters) + 1)
Registered(w) == pc[w] \in {"select", "ctxpath", "exppath"}
InUse == {vc[k] : k \in Keys} \cup {ws[w] : w \in {x \in Waiters : Registered(x)}}
FreshChan == CHOOSE c \in Chans : c \notin InUse /\ \A o \in Chans : (o \notin InUse => c <= o)

\* ---- the waiters-group table as a value: T = [zombie, vc, cnt, closed, panic] -----
Tbl == [zombie |-> zombie, vc |-> vc, cnt |-> cnt, closed |-> closed, panic |-> panic]
SetTbl(T) == /\ zombie' = T.zombie /\ vc' = T.vc /\ cnt' = T.cnt /\ closed' = T.closed /\ panic' = T.panic

Close(T, c) == [T EXCEPT !.closed = @ \cup {c}, !.panic = @ \/ (c \in T.closed)]

\* notifyWaiters(key)                                                  [:238-245]
Notify(T, k) == IF T.vc[k] = 0 THEN T ELSE [Close(T, T.vc[k]) EXCEPT !.vc[k] = 0]

\* liveRecord(key): an expired record is removed like a deleted one   [:208-219]
\* (whether the key is live afterwards is KV!Present of the contract's store)
LiveRec(T, k) == IF T.zombie[k] # 0 THEN Notify([T EXCEPT !.zombie[k] = 0], k) ELSE T

\* leaveWaiters(key, ws)                                               [:194-204]
Leave(T, k, c) ==
    IF Bug = "leaveNoCompare"
    THEN \* seeded: the group is not compared with the key's current one
         IF T.cnt[c] = 1 THEN [Close([T EXCEPT !.cnt[c] = 0], c) EXCEPT !.vc[k] = 0]
         ELSE [T EXCEPT !.cnt[c] = @ - 1]
    ELSE IF T.vc[k] = 0 \/ T.vc[k] # c THEN T
    ELSE IF T.cnt[c] = 1
         THEN IF Bug = "leaveNoDelete"
              THEN Close([T EXCEPT !.cnt[c] = 0], c)
              ELSE [Close([T EXCEPT !.cnt[c] = 0], c) EXCEPT !.vc[k] = 0]
         ELSE IF Bug = "leaveNoCount"
              THEN \* seeded: tears the group down although others are registered
                   [Close([T EXCEPT !.cnt[c] = @ - 1], c) EXCEPT !.vc[k] = 0]
              ELSE [T EXCEPT !.cnt[c] = @ - 1]

Init == /\ KW!FineInit
        /\ zombie = [k \in Keys |-> 0] /\ vc = [k \in Keys |-> 0]
        /\ cnt = [c \in Chans |-> 0] /\ closed = {}
        /\ pc = [w \in Waiters |-> "idle"] /\ ws = [w \in Waiters |-> 0] /\ wexp = [w \in Waiters |-> 0]
        /\ panic = FALSE /\ ncalls = 0 /\ nmuts = 0

SameStore == UNCHANGED <<store, now, nextVer, known>>
SameTbl == UNCHANGED <<zombie, vc, cnt, closed, panic>>

\* ---- the call -----------------------------------------------------------------
Invoke(w, k, ver, pre) ==
    /\ pc[w] = "idle" /\ ncalls < MaxCalls
    /\ wt' = KW!Invoked(St, wt, w, k, ver, pre)
    /\ pc' = [pc EXCEPT ![w] = "top"]
    /\ ncalls' = ncalls + 1
    /\ SameStore /\ SameTbl /\ UNCHANGED <<ws, wexp, nmuts>>

\* the context of a call in progress becomes done (any time)
CancelCtx(w) ==
    /\ pc[w] # "idle" /\ ~wt[w].ctx
    /\ wt' = KW!Cancelled(wt, w)
    /\ SameStore /\ SameTbl /\ UNCHANGED <<pc, ws, wexp, ncalls, nmuts>>

Return(w, T) == /\ wt' = [wt EXCEPT ![w] = KW!Idle]
                /\ pc' = [pc EXCEPT ![w] = "idle"]
                /\ SetTbl(T) /\ UNCHANGED <<ws, wexp>>

Register(w, T) ==
    LET k == wt[w].k
        c == IF T.vc[k] # 0 THEN T.vc[k] ELSE FreshChan
        T1 == IF T.vc[k] # 0 THEN T
              ELSE [T EXCEPT !.vc[k] = c, !.cnt[c] = 0, !.closed = @ \ {c}]   \* make(chan)
    IN /\ SetTbl([T1 EXCEPT !.cnt[c] = @ + 1])
       /\ ws' = [ws EXCEPT ![w] = c]
       /\ wexp' = [wexp EXCEPT ![w] = IF KV!Present(St, k) THEN store[k].exp ELSE 0]
       /\ pc' = [pc EXCEPT ![w] = "select"]
       /\ UNCHANGED wt

\* top of the loop, one critical section: check, then return or register
Check(w) ==
    /\ pc[w] = "top"
    /\ LET k == wt[w].k
           T == LiveRec(Tbl, k)
       IN IF ~KV!Present(St, k) THEN Return(w, T)                          \* ErrNotExist
          ELSE IF (store[k].ver # wt[w].ver) # (Bug = "invertedCompare") THEN Return(w, T)   \* nil
          ELSE IF Bug = "regAfterUnlock"
               THEN /\ pc' = [pc EXCEPT ![w] = "toreg"] /\ SetTbl(T) /\ UNCHANGED <<wt, ws, wexp>>
               ELSE Register(w, T)
    /\ SameStore /\ UNCHANGED <<ncalls, nmuts>>

\* seeded defect only: the registration is a second critical section, without a re-check
LateRegister(w) ==
    /\ pc[w] = "toreg"
    /\ Register(w, Tbl)
    /\ SameStore /\ UNCHANGED <<ncalls, nmuts>>

\* the select statement: one action per ready branch (Go picks any ready one)
SelDone(w) == /\ pc[w] = "select" /\ ws[w] \in closed
              /\ pc' = [pc EXCEPT ![w] = "top"]
              /\ SameStore /\ SameTbl /\ UNCHANGED <<wt, ws, wexp, ncalls, nmuts>>
SelCtx(w)  == /\ pc[w] = "select" /\ wt[w].ctx
              /\ pc' = [pc EXCEPT ![w] = "ctxpath"]
              /\ SameStore /\ SameTbl /\ UNCHANGED <<wt, ws, wexp, ncalls, nmuts>>
TimerDue(w) == wexp[w] # 0 /\ wexp[w] < now
SelExp(w)  == /\ pc[w] = "select" /\ TimerDue(w)
              /\ pc' = [pc EXCEPT ![w] = "exppath"]
              /\ SameStore /\ SameTbl /\ UNCHANGED <<wt, ws, wexp, ncalls, nmuts>>

\* case <-ctx.Done(): lock; leaveWaiters; return ctx.Err()
CtxPath(w) == /\ pc[w] = "ctxpath"
              /\ Return(w, Leave(Tbl, wt[w].k, ws[w]))
              /\ SameStore /\ UNCHANGED <<ncalls, nmuts>>
\* case <-expired: lock; leaveWaiters; unlock; go around
ExpPath(w) == /\ pc[w] = "exppath"
              /\ SetTbl(Leave(Tbl, wt[w].k, ws[w]))
              /\ pc' = [pc EXCEPT ![w] = "top"]
              /\ SameStore /\ UNCHANGED <<wt, ws, wexp, ncalls, nmuts>>

WaiterStep(w) == Check(w) \/ LateRegister(w) \/ SelDone(w) \/ SelCtx(w) \/ SelExp(w) \/ CtxPath(w) \/ ExpPath(w)

\* ---- the store calls (each holds s.lock from start to end) --------------------
\* the contract's effect of `call`, with the code's table effect T
Mut(call, T) ==
    /\ nmuts < MaxMuts
    /\ LET r == KW!AfterCall(St, wt, call)
       IN /\ store' = r.s.store /\ now' = r.s.now /\ nextVer' = r.s.nextVer /\ known' = r.s.known
          /\ wt' = r.W
    /\ SetTbl(T)
    /\ nmuts' = nmuts + 1
    /\ UNCHANGED <<pc, ws, wexp, ncalls>>

Overwrite(T, k) == Notify([T EXCEPT !.zombie[k] = 0], k)     \* s.recs[k] = record; notifyWaiters(k)

Put(k, e) == Mut([op |-> "Put", k |-> k, val |-> "x", exp |-> e],
                 IF Bug = "putNoNotify" THEN [Tbl EXCEPT !.zombie[k] = 0] ELSE Overwrite(Tbl, k))

RECURSIVE OverwriteAll(_, _)
OverwriteAll(T, ks) == IF ks = <<>> THEN T ELSE OverwriteAll(Overwrite(T, Head(ks)), Tail(ks))
PutMany(ks) == Mut([op |-> "PutMany", recs |-> [j \in 1 .. Len(ks) |-> [k |-> ks[j], val |-> "x", exp |-> "none"]]],
                   OverwriteAll(Tbl, ks))

Cas(k, a) == LET T == LiveRec(Tbl, k)
             IN Mut([op |-> "Cas", k |-> k, arg |-> a, val |-> "x", exp |-> "none"],
                    IF KV!Present(St, k) /\ store[k].ver = a
                    THEN (IF Bug = "casNoNotify" THEN T ELSE Notify(T, k)) ELSE T)

Delete(k) == LET T == LiveRec(Tbl, k)
             IN Mut([op |-> "Delete", k |-> k],
                    IF KV!Present(St, k) THEN (IF Bug = "deleteNoNotify" THEN T ELSE Notify(T, k)) ELSE T)

\* Create does not notify: it succeeds only on an absent key, and nobody can be parked on one
Create(k) == Mut([op |-> "Create", k |-> k, val |-> "x", exp |-> "none"], LiveRec(Tbl, k))

\* Get / GetMany / ListKeys: no effect on the contract's state, but they run liveRecord
Touch(k) == /\ nmuts < MaxMuts /\ zombie[k] # 0
            /\ SetTbl(LiveRec(Tbl, k))
            /\ nmuts' = nmuts + 1
            /\ SameStore /\ UNCHANGED <<wt, pc, ws, wexp, ncalls>>

\* time passes: the contract forgets the expired records at once, the map keeps them
Advance ==
    /\ now < MaxNow
    /\ LET r == KW!AfterCall(St, wt, [op |-> "Advance"])
       IN /\ store' = r.s.store /\ now' = r.s.now /\ nextVer' = r.s.nextVer /\ known' = r.s.known
          /\ wt' = r.W
          /\ zombie' = [k \in Keys |-> IF KV!Present(St, k) /\ ~KV!Present(r.s, k) THEN store[k].ver ELSE zombie[k]]
    /\ UNCHANGED <<vc, cnt, closed, panic, pc, ws, wexp, ncalls, nmuts>>

Exps == IF MaxNow > 0 THEN {"none", "s1"} ELSE {"none"}
StoreStep == \/ \E k \in Keys, e \in Exps : Put(k, e)
             \/ \E ks \in KV!SeqsUpTo(Keys, 2) : PutMany(ks)
             \/ \E k \in Keys : \E a \in KV!VerArgs(St, k) : Cas(k, a)
             \/ \E k \in Keys : Delete(k) \/ Create(k) \/ Touch(k)
             \/ Advance

Next == \/ \E w \in Waiters, k \in Keys, pre \in BOOLEAN : \E ver \in KV!VerArgs(St, k) : Invoke(w, k, ver, pre)
        \/ \E w \in Waiters : CancelCtx(w) \/ WaiterStep(w)
        \/ StoreStep

vars == <<store, now, nextVer, known, wt, zombie, vc, cnt, closed, pc, ws, wexp, panic, ncalls, nmuts>>
Spec == Init /\ [][Next]_vars
FairSpec == Spec /\ \A w \in Waiters : WF_vars(WaiterStep(w))

\* ---- what TLC checks ----------------------------------------------------------
Refines == KW!FineSpec

NoPanic == ~panic

StoreCond(w) == KW!Holds(St, [wt[w] EXCEPT !.ctx = FALSE]) # {}
NoLostWakeup == \A w \in Waiters :
    (pc[w] = "select" /\ StoreCond(w)) => (ws[w] \in closed \/ TimerDue(w))

RegisteredIn(c) == {w \in Waiters : Registered(w) /\ ws[w] = c}
NeverStranded ==
    /\ \A w \in Waiters : (pc[w] = "select" /\ ws[w] \notin closed) => vc[wt[w].k] = ws[w]
    /\ \A k \in Keys : vc[k] # 0 =>
          /\ vc[k] \notin closed
          /\ cnt[vc[k]] = Cardinality(RegisteredIn(vc[k]))
          /\ cnt[vc[k]] >= 1
          /\ \A w \in RegisteredIn(vc[k]) : wt[w].k = k

NoResidue == (\A w \in Waiters : pc[w] = "idle") => (\A k \in Keys : vc[k] = 0)

\* a waiter that gives up (or whose timer fired) closes no channel another waiter is parked on
GiveUpQuiet == [][\A w \in Waiters :
                    (pc[w] \in {"ctxpath", "exppath"} /\ pc'[w] # pc[w]) =>
                        \A o \in Waiters \ {w} :
                            (pc[o] = "select" /\ ws[o] \notin closed) => ws[o] \notin closed']_vars

ZombieAbsent == \A k \in Keys : zombie[k] # 0 => ~KV!Present(St, k)

Prompt == \A w \in Waiters : (KW!Overdue(w)) ~> (wt[w].st = "idle")

\* channels nobody references any more carry no information
View == <<store, now, nextVer, known, wt, zombie, vc,
          [c \in Chans |-> IF c \in InUse THEN <<cnt[c], c \in closed>> ELSE <<0, FALSE>>],
          pc, [w \in Waiters |-> IF Registered(w) THEN <<ws[w], wexp[w]>> ELSE <<0, 0>>], panic, ncalls, nmuts>>
=============================================================================
