---------------------------- MODULE InmemWaitMC ----------------------------
(* Model-checking constants for InmemWaitImpl (cfg files cannot hold tuples). *)
EXTENDS InmemWaitImpl
Keys1 == {<<"a">>}
Keys2 == {<<"a">>, <<"b">>}
=============================================================================
