------------------------------ MODULE KvLinTrace ------------------------------
(* C02, direction code -> spec: TLC decides whether a recorded CONCURRENT      *)
(* history of one kvs.Storage is linearizable with respect to the sequential   *)
(* contract KvStore!Apply (the same operator C03/C06 use; nothing of the       *)
(* contract is restated here).                                                 *)
(*                                                                            *)
(* The trace (ndjson, one event per line, in the order of the harness's global *)
(* sequence number) consists of                                               *)
(*   {"e":"reset"}                      a fresh, empty storage starts here     *)
(*   {"e":"inv","t":T,"op":..,args}      thread T is about to call op           *)
(*   {"e":"ret","t":T,reply}             the call of thread T has returned      *)
(* A thread logs "inv" before it calls and "ret" after the call returned, so   *)
(* the logged interval contains the real one: every linearization of the real  *)
(* execution is a linearization of the logged history (sound, no false alarm). *)
(*                                                                            *)
(* Actions.  Inv opens the pending operation of its thread.  The silent step   *)
(* Lin(t, j) is the linearization point of (the j-th per-key part of) the      *)
(* pending operation of t: it applies the call to the abstract store with      *)
(* KvStore!Apply and is enabled only if the reply the contract fixes there is  *)
(* the reply the log shows for this call (the matching "ret" line is read      *)
(* ahead - the reply of a call is a constant of the trace, so fixing it at the *)
(* linearization point or comparing it later is the same thing, but comparing  *)
(* at once cuts a wrong order where it goes wrong and keeps the search         *)
(* linear).  Ret consumes the "ret" line of a thread only when every part of   *)
(* its operation has been linearized, i.e. strictly inside inv..ret.           *)
(* GetMany / PutMany have one linearization point per entry, in any order      *)
(* inside the call's interval, exactly as the property states ("the per-key    *)
(* effects of GetMany/PutMany"); all other operations have one.                *)
(*                                                                            *)
(* Replies are compared as the property fixes them: error CLASS ("nil",        *)
(* "exist", "notexist", "conflict"; anything else the harness logs as          *)
(* "other: ..." and no contract reply ever equals that), value bytes with      *)
(* nil == empty (StoredVal), presence of an expiration, and versions.          *)
(*                                                                            *)
(* Versions are opaque.  The harness replaces every real version string by a   *)
(* small positive integer, by first appearance in the serialised event order   *)
(* (0: the empty string / a bogus CAS argument).  The abstract store holds     *)
(* these logged ids: Apply is called with nextVer = "the id this write will    *)
(* install", which for Create / Put / CasByVersion is the id in the write's    *)
(* own reply (read ahead) - so states do not depend on the order in which      *)
(* independent writes were linearized and equal stores are equal states.       *)
(* PutMany does not return versions: its j-th write installs the placeholder   *)
(* -(10 * invocation line + j) (negative, canonical), which is replaced by the *)
(* logged id at the first linearized read that observes the record.            *)
(* Freshness ("a version never handed out before"): `used` is the set of ids   *)
(* that belong to some linearized write; a write (or the first observation of  *)
(* a PutMany write) is enabled only with an id not in `used`.  Hence two       *)
(* writes with one version, a write that keeps the old version, and a read     *)
(* that reports a version no write installed are all rejected.                 *)
(*                                                                            *)
(* Acceptance: high-water mark of the cursor (TraceLib).  The search is        *)
(* depth-first (StateDeque, -workers 1) and stops expanding once the end of    *)
(* the trace was reached; a rejected trace is explored completely and the      *)
(* reported line is the first event no placement of linearization points can   *)
(* explain.                                                                    *)
EXTENDS TraceLib, FiniteSets

CONSTANTS LinKeys,   \* key strings used by the driver
          MaxT       \* threads are 1 .. MaxT

VARIABLES l,         \* cursor: next trace line to consume
          store,     \* abstract store: key -> NoRec | [val, ver, exp]  (KvStore's shape)
          used,      \* version ids that belong to a linearized write
          pend       \* thread -> Idle | [inv, ret, todo]: lines of its inv / ret, parts not yet linearized

vars == <<l, store, used, pend>>

\* the contract; time stands still (expirations are only "none" or far away: C06 owns expiry)
KV == INSTANCE KvStore WITH Keys <- LinKeys, Pats <- {}, InVals <- {}, ExpClasses <- {}, MaxNow <- 0,
                            ManyLen <- 0, now <- 0, nextVer <- 0, known <- {}, hist <- <<>>

Threads == 1 .. MaxT
Idle == [idle |-> TRUE]
NoRec == KV!NoRec

Ev == Trace[l]

\* line of the "ret" event that answers the invocation of thread t logged just before line j
\* (a thread has one call in flight, so it is the next "ret" of t); 0 if the log ends first
RECURSIVE FindRet(_, _)
FindRet(j, t) == IF j > Len(Trace) \/ Trace[j].e = "reset" THEN 0
                 ELSE IF Trace[j].e = "ret" /\ Trace[j].t = t THEN j
                 ELSE FindRet(j + 1, t)

\* ---- an invocation as calls of the contract -----------------------------------
NParts(c) == CASE c.op = "GetMany" -> Len(c.ks)
               [] c.op = "PutMany" -> Len(c.recs)
               [] OTHER -> 1

\* the j-th part of invocation c as a call record of KvStore!Apply
PartCall(c, j) ==
    CASE c.op = "Create"  -> [op |-> "Create", k |-> c.k, val |-> c.val, exp |-> c.exp]
      [] c.op = "Put"     -> [op |-> "Put", k |-> c.k, val |-> c.val, exp |-> c.exp]
      [] c.op = "Cas"     -> [op |-> "Cas", k |-> c.k, arg |-> c.arg, val |-> c.val, exp |-> c.exp]
      [] c.op = "Get"     -> [op |-> "Get", k |-> c.k]
      [] c.op = "Delete"  -> [op |-> "Delete", k |-> c.k]
      [] c.op = "GetMany" -> [op |-> "Get", k |-> c.ks[j]]
      [] c.op = "PutMany" -> [op |-> "Put", k |-> c.recs[j].k, val |-> c.recs[j].val, exp |-> c.recs[j].exp]

\* the version id the j-th part of c installs if it writes (r: the logged reply of c, il: line of c)
WriteVer(c, r, j, il) ==
    CASE c.op = "PutMany" -> 0 - (10 * il + j)
      [] c.op \in {"Create", "Put", "Cas"} -> IF r.err = "nil" THEN r.ver ELSE 0
      [] OTHER -> 0

\* ---- comparing what the contract answers with what the log shows -----------------
\* sv: version held by the abstract store (id > 0 or placeholder < 0), lv: logged id
VerSeen(sv, lv) == IF sv > 0 THEN lv = sv
                   ELSE lv > 0 /\ lv \notin used      \* first sight of a PutMany write: an id of no other write
\* store after key k's record has been observed under the logged id lv
Bound(st, k, sv, lv) == IF sv < 0 THEN [st EXCEPT ![k].ver = lv] ELSE st
UsedAfterSeen(sv, lv) == IF sv < 0 THEN used \cup {lv} ELSE used

\* a record as the contract returns it against the logged one [val, ver, exp] / [none]
RecAgrees(cr, lr) == IF cr = NoRec THEN Has(lr, "none")
                     ELSE /\ ~Has(lr, "none")
                          /\ lr.val = cr.val
                          /\ (lr.exp = 0) = (cr.exp = 0)
                          /\ VerSeen(cr.ver, lr.ver)
FreshWrite(w) == w > 0 /\ w \notin used

\* Linearize(c, r, j, il): the j-th part of call c (logged reply r) takes effect now.
\* Enabled iff the contract's reply in the current abstract store is the logged one.
Linearize(c, r, j, il) ==
    LET call == PartCall(c, j)
        w    == WriteVer(c, r, j, il)
        a    == KV!Apply([store |-> store, now |-> 0, nextVer |-> w, known |-> {}], call)
        res  == a.res
        ns   == a.s.store
    IN CASE c.op = "Create" ->
              /\ r.err = res.err
              /\ IF res.err = "nil"
                 THEN FreshWrite(w) /\ store' = ns /\ used' = used \cup {w}
                 ELSE /\ VerSeen(res.ver, r.ver)                         \* ErrExist carries the stored version
                      /\ store' = Bound(ns, c.k, res.ver, r.ver)
                      /\ used' = UsedAfterSeen(res.ver, r.ver)
         [] c.op = "Put" ->
              /\ r.err = res.err                                         \* Put has no failing outcome in the contract
              /\ r.val = KV!StoredVal(c.val)                             \* the returned record is the written one
              /\ FreshWrite(w) /\ store' = ns /\ used' = used \cup {w}
         [] c.op = "Cas" ->
              /\ r.err = res.err                                         \* nil / notexist / conflict
              /\ IF res.err = "nil"
                 THEN /\ r.val = KV!StoredVal(c.val)
                      /\ FreshWrite(w) /\ store' = ns /\ used' = used \cup {w}
                 ELSE store' = ns /\ used' = used                        \* a loser changes nothing (ns = store)
         [] c.op = "Delete" ->
              /\ r.err = res.err
              /\ store' = ns /\ used' = used
         [] c.op = "Get" ->
              /\ r.err = res.err
              /\ IF res.err = "nil"
                 THEN /\ RecAgrees(res.rec, r.rec)
                      /\ store' = Bound(ns, c.k, res.rec.ver, r.rec.ver)
                      /\ used' = UsedAfterSeen(res.rec.ver, r.rec.ver)
                 ELSE store' = ns /\ used' = used
         [] c.op = "GetMany" ->
              /\ r.err = "nil" /\ Len(r.recs) = Len(c.ks)               \* one slot per key, nil for a missing one
              /\ RecAgrees(res.rec, r.recs[j])
              /\ IF res.err = "nil"
                 THEN /\ store' = Bound(ns, c.ks[j], res.rec.ver, r.recs[j].ver)
                      /\ used' = UsedAfterSeen(res.rec.ver, r.recs[j].ver)
                 ELSE store' = ns /\ used' = used
         [] c.op = "PutMany" ->
              /\ r.err = "nil"
              /\ store' = ns /\ used' = used                             \* version w is a placeholder: not observable yet

\* ---- actions ---------------------------------------------------------------------
Init == /\ l = 1
        /\ store = [k \in LinKeys |-> NoRec]
        /\ used = {}
        /\ pend = [t \in Threads |-> Idle]
        /\ HighWaterInit

\* a new history on a fresh storage
Reset == /\ l <= Len(Trace) /\ Ev.e = "reset"
         /\ l' = l + 1
         /\ store' = [k \in LinKeys |-> NoRec] /\ used' = {}
         /\ pend' = [t \in Threads |-> Idle]

Inv == /\ l <= Len(Trace) /\ Ev.e = "inv"
       /\ pend[Ev.t] = Idle
       /\ LET rl == FindRet(l + 1, Ev.t)
          IN /\ rl # 0
             /\ pend' = [pend EXCEPT ![Ev.t] = [inv |-> l, ret |-> rl, todo |-> 1 .. NParts(Ev)]]
       /\ l' = l + 1
       /\ UNCHANGED <<store, used>>

\* linearization point of part j of the pending operation of thread t (silent)
Lin(t, j) == /\ pend[t] # Idle /\ j \in pend[t].todo
             /\ Linearize(Trace[pend[t].inv], Trace[pend[t].ret], j, pend[t].inv)
             /\ pend' = [pend EXCEPT ![t].todo = @ \ {j}]
             /\ UNCHANGED l

\* A call whose context was already done when it was made (inv carries cctx) may answer as usual - then it is
\* linearized as usual - or refuse with the context's error: a call that reports an error has changed nothing.
LinCtx(t) == /\ pend[t] # Idle /\ pend[t].todo # {}
             /\ Has(Trace[pend[t].inv], "cctx") /\ Trace[pend[t].ret].err = "ctxerr"
             /\ pend' = [pend EXCEPT ![t].todo = {}]
             /\ UNCHANGED <<l, store, used>>

Ret == /\ l <= Len(Trace) /\ Ev.e = "ret"
       /\ pend[Ev.t] # Idle /\ pend[Ev.t].ret = l
       /\ pend[Ev.t].todo = {}                     \* took effect before it returned, with this very reply
       /\ pend' = [pend EXCEPT ![Ev.t] = Idle]
       /\ l' = l + 1
       /\ UNCHANGED <<store, used>>

Next == Reset \/ Inv \/ Ret \/ (\E t \in Threads : pend[t] # Idle /\ \E j \in pend[t].todo : Lin(t, j)) \/ \E t \in Threads : LinCtx(t)
Spec == Init /\ [][Next]_vars

\* CONSTRAINT: records the high-water mark; once the whole trace has been explained nothing more is expanded
Explore == HighWater(l) /\ TLCGet(1) <= Len(Trace)
Accepted == AcceptByHighWater
=============================================================================
