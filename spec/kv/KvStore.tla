------------------------------- MODULE KvStore -------------------------------
(* Sequential contract of kvs.Storage (properties C03, C06; also the store of *)
(* the linearizability check C02, the waiter contract C07 and the lock        *)
(* protocol C01/C04/C05).  Only API-observable values appear.                 *)
(*                                                                            *)
(* store : Key -> NoRec | [val, ver, exp]     exp = 0: no expiration          *)
(* now   : discrete time.  A record is live while now <= exp (or exp = 0).    *)
(*         Time is always even, expirations are odd, so "now = exp" never     *)
(*         happens and the model never depends on the boundary.               *)
(* C06 is built in: Advance drops every record whose expiration has passed,   *)
(* i.e. the contract literally cannot tell an expired key from a deleted one. *)
(* Versions are integers handed out in increasing order (the code uses ULID   *)
(* strings; the harness binds each real string to the model's integer at its  *)
(* first appearance and checks freshness).                                     *)
(*                                                                            *)
(* Apply(s, call) is the single definition of the contract.                   *)
EXTENDS Integers, Sequences, FiniteSets, SequencesExt, Emit

CONSTANTS Keys,        \* set of keys; a key is a tuple of one-character strings
          Pats,        \* ListKeys patterns; tuples over characters, "*" and "?"
          InVals,      \* input value classes, subset of {"nil", "empty", "x", "y"}
          ExpClasses,  \* subset of {"none", "s1", "s3", "long"}
          MaxNow,      \* Advance is enabled while now < MaxNow
          ManyLen      \* GetMany/PutMany take 1..ManyLen entries

VARIABLES store, now, nextVer, known, hist

NoRec == [none |-> TRUE]

\* nil and empty values are the same stored value
StoredVal(v) == IF v \in {"nil", "empty"} THEN "" ELSE v
\* expiration classes: none; s1 / s3: one / three ticks ahead (time moves two ticks per Advance); f23 / f27: for the
\* fine-grained time configuration (one Advance = 2 ticks of 100 ms: the record must live 2.2 s and be gone at 2.4 s,
\* resp. live 2.6 s and be gone at 2.8 s); long / far: never reached (far = year 9999); past: already expired when written
AbsExp(t, c) == CASE c = "none" -> 0 [] c = "s1" -> t + 1 [] c = "s3" -> t + 3 [] c = "long" -> t + 99
                  [] c = "f23" -> t + 23 [] c = "f27" -> t + 27 [] c = "far" -> t + 9999 [] c = "past" -> t - 1

\* glob matching over tuples of pattern elements (the syntax kvs.go refers to: github.com/gobwas/glob, compiled without
\* separators).  An element is a character, "*" (any sequence), "?" (any one character), or one of the multi-character
\* tokens below, which the harness writes into the pattern string verbatim:
\*   "{..,..}"  alternatives (gobwas only - the Redis server's own matcher has no alternatives, so patterns with them are
\*              replayed on the in-memory backend only);
\*   "[..]"     a character class: list, range, negated with "!" (gobwas spelling; in-memory backend only)
AltToks == {"{a,ab}", "{a,d/b}", "{b,c}", "{a,x}", "{ab,d/b}"}
AltOf(t) == CASE t = "{a,ab}"   -> {<<"a">>, <<"a", "b">>}
              [] t = "{a,d/b}"  -> {<<"a">>, <<"d", "/", "b">>}
              [] t = "{b,c}"    -> {<<"b">>, <<"c">>}
              [] t = "{a,x}"    -> {<<"a">>, <<"x">>}
              [] t = "{ab,d/b}" -> {<<"a", "b">>, <<"d", "/", "b">>}
\*   "\\*"     a backslash makes the following metacharacter an ordinary character (both matchers)
EscToks == {"\\*", "\\?"}
EscOf(t) == IF t = "\\*" THEN "*" ELSE "?"
ClsToks == {"[ab]", "[a-c]", "[!d]", "[!a-c]"}
ClsOf(t) == CASE t = "[ab]"   -> [set |-> {"a", "b"}, neg |-> FALSE]
              [] t = "[a-c]"  -> [set |-> {"a", "b", "c"}, neg |-> FALSE]
              [] t = "[!d]"   -> [set |-> {"d"}, neg |-> TRUE]
              [] t = "[!a-c]" -> [set |-> {"a", "b", "c"}, neg |-> TRUE]
RECURSIVE GlobMatch(_, _)
GlobMatch(p, str) ==
    IF p = <<>> THEN str = <<>>
    ELSE IF Head(p) = "*"
         THEN \E n \in 0 .. Len(str) : GlobMatch(Tail(p), SubSeq(str, n + 1, Len(str)))
    ELSE IF Head(p) \in EscToks
         THEN str # <<>> /\ Head(str) = EscOf(Head(p)) /\ GlobMatch(Tail(p), Tail(str))
    ELSE IF Head(p) \in AltToks
         THEN \E a \in AltOf(Head(p)) : GlobMatch(a \o Tail(p), str)
    ELSE IF Head(p) \in ClsToks
         THEN /\ str # <<>>
              /\ ((Head(str) \in ClsOf(Head(p)).set) # ClsOf(Head(p)).neg)
              /\ GlobMatch(Tail(p), Tail(str))
         ELSE /\ str # <<>>
              /\ (Head(p) = "?" \/ Head(p) = Head(str))
              /\ GlobMatch(Tail(p), Tail(str))

Present(s, k) == s.store[k] # NoRec
Fresh(s) == s.nextVer

RecOut(s, k) == [k |-> k, val |-> s.store[k].val, ver |-> s.store[k].ver, exp |-> s.store[k].exp]

\* write one record under a fresh version
\* (a record written with an expiration that has already passed replaces what was there and is gone at once: C06)
Write(s, k, v, e) ==
    [s EXCEPT !.store[k] = IF e = "past" THEN NoRec ELSE [val |-> StoredVal(v), ver |-> s.nextVer, exp |-> AbsExp(s.now, e)],
              !.nextVer = @ + 1]

RECURSIVE WriteMany(_, _)
WriteMany(s, recs) == IF recs = <<>> THEN s
                      ELSE WriteMany(Write(s, recs[1].k, recs[1].val, recs[1].exp), Tail(recs))

\* s = [store, now, nextVer, known];  result [s |-> s', res |-> reply]
Apply(s, call) ==
    CASE call.op = "Create" ->
           IF Present(s, call.k)
           THEN [s |-> [s EXCEPT !.known = @ \cup {s.store[call.k].ver}],
                 res |-> [op |-> "Create", k |-> call.k, val |-> call.val, exp |-> call.exp,
                          err |-> "exist", ver |-> s.store[call.k].ver]]
           ELSE [s |-> [Write(s, call.k, call.val, call.exp) EXCEPT !.known = @ \cup {s.nextVer}],
                 res |-> [op |-> "Create", k |-> call.k, val |-> call.val, exp |-> call.exp,
                          err |-> "nil", ver |-> s.nextVer]]
      [] call.op = "Get" ->
           IF Present(s, call.k)
           THEN [s |-> [s EXCEPT !.known = @ \cup {s.store[call.k].ver}],
                 res |-> [op |-> "Get", k |-> call.k, err |-> "nil", rec |-> RecOut(s, call.k)]]
           ELSE [s |-> s, res |-> [op |-> "Get", k |-> call.k, err |-> "notexist", rec |-> NoRec]]
      [] call.op = "GetMany" ->
           [s |-> [s EXCEPT !.known = @ \cup {s.store[call.ks[j]].ver : j \in {x \in 1 .. Len(call.ks) : Present(s, call.ks[x])}}],
            res |-> [op |-> "GetMany", ks |-> call.ks,
                     recs |-> [j \in 1 .. Len(call.ks) |->
                                 IF Present(s, call.ks[j]) THEN RecOut(s, call.ks[j]) ELSE NoRec]]]
      [] call.op = "Put" ->
           [s |-> [Write(s, call.k, call.val, call.exp) EXCEPT !.known = @ \cup {s.nextVer}],
            res |-> [op |-> "Put", k |-> call.k, val |-> call.val, exp |-> call.exp,
                     err |-> "nil", ver |-> s.nextVer, absexp |-> AbsExp(s.now, call.exp)]]
      [] call.op = "PutMany" ->
           [s |-> WriteMany(s, call.recs), res |-> [op |-> "PutMany", recs |-> call.recs, err |-> "nil", first |-> s.nextVer]]
      [] call.op = "Cas" ->
           IF ~Present(s, call.k)
           THEN [s |-> s, res |-> [op |-> "Cas", k |-> call.k, arg |-> call.arg, val |-> call.val, exp |-> call.exp,
                                   err |-> "notexist", ver |-> 0]]
           ELSE IF s.store[call.k].ver # call.arg
           THEN [s |-> s, res |-> [op |-> "Cas", k |-> call.k, arg |-> call.arg, val |-> call.val, exp |-> call.exp,
                                   err |-> "conflict", ver |-> 0]]
           ELSE [s |-> [Write(s, call.k, call.val, call.exp) EXCEPT !.known = @ \cup {s.nextVer}],
                 res |-> [op |-> "Cas", k |-> call.k, arg |-> call.arg, val |-> call.val, exp |-> call.exp,
                          err |-> "nil", ver |-> s.nextVer]]
      [] call.op = "Delete" ->
           IF Present(s, call.k)
           THEN [s |-> [s EXCEPT !.store[call.k] = NoRec], res |-> [op |-> "Delete", k |-> call.k, err |-> "nil"]]
           ELSE [s |-> s, res |-> [op |-> "Delete", k |-> call.k, err |-> "notexist"]]
      [] call.op = "ListKeys" ->
           [s |-> s, res |-> [op |-> "ListKeys", pat |-> call.pat,
                              keys |-> {k \in DOMAIN s.store : Present(s, k) /\ GlobMatch(call.pat, k)}]]
      [] call.op = "Wait" ->     \* only the cases that return at once (the blocking case is C07's)
           IF Present(s, call.k)
           THEN [s |-> s, res |-> [op |-> "Wait", k |-> call.k, arg |-> call.arg, err |-> "nil"]]
           ELSE [s |-> s, res |-> [op |-> "Wait", k |-> call.k, arg |-> call.arg, err |-> "notexist"]]
      [] call.op = "Advance" ->  \* time passes; what has expired is gone
           LET t == s.now + 2
           IN [s |-> [s EXCEPT !.now = t,
                               !.store = [k \in DOMAIN s.store |->
                                            IF Present(s, k) /\ s.store[k].exp # 0 /\ s.store[k].exp < t
                                            THEN NoRec ELSE s.store[k]]],
               res |-> [op |-> "Advance", now |-> t]]

St == [store |-> store, now |-> now, nextVer |-> nextVer, known |-> known]

\* ---- which calls a client may issue in state s -------------------------------
CurVers(s) == {s.store[k].ver : k \in {x \in DOMAIN s.store : Present(s, x)}}
MaxOf(S) == CHOOSE m \in S : \A o \in S : o <= m
\* version arguments a client can form for key k: unknown (0), the current one if it
\* has seen it, and the newest version it has seen that is not the current one
VerArgs(s, k) ==
    LET cur == IF Present(s, k) THEN {s.store[k].ver} ELSE {}
        stale == s.known \ cur
    IN {0} \cup (cur \cap s.known) \cup (IF stale = {} THEN {} ELSE {MaxOf(stale)})

SeqsUpTo(S, n) == UNION {[1 .. m -> S] : m \in 1 .. n}

Calls(s) ==
    {[op |-> "Create", k |-> k, val |-> v, exp |-> e] : k \in Keys, v \in InVals, e \in ExpClasses}
    \cup {[op |-> "Put", k |-> k, val |-> v, exp |-> e] : k \in Keys, v \in InVals, e \in ExpClasses}
    \cup {[op |-> "Get", k |-> k] : k \in Keys}
    \cup {[op |-> "Delete", k |-> k] : k \in Keys}
    \cup {[op |-> "GetMany", ks |-> ks] : ks \in SeqsUpTo(Keys, ManyLen)}
    \cup {[op |-> "PutMany", recs |-> [j \in 1 .. Len(ks) |-> [k |-> ks[j], val |-> IF j = 1 THEN "x" ELSE "y", exp |-> es[j]]]] :
              ks \in SeqsUpTo(Keys, ManyLen), es \in [1 .. ManyLen -> ExpClasses \cap {"none", "s1", "long", "past", "f23", "f27"}]}
    \cup UNION {{[op |-> "Cas", k |-> k, arg |-> a, val |-> v, exp |-> e] :
                    a \in VerArgs(s, k), v \in InVals \cap {"x", "nil"}, e \in ExpClasses \cap {"none", "s1", "past", "f23", "f27"}} : k \in Keys}
    \cup {[op |-> "ListKeys", pat |-> p] : p \in Pats}
    \cup UNION {{[op |-> "Wait", k |-> k, arg |-> a] :
                    a \in {x \in VerArgs(s, k) : ~Present(s, k) \/ x # s.store[k].ver}} : k \in Keys}
    \cup (IF s.now < MaxNow THEN {[op |-> "Advance"]} ELSE {})

Init == /\ store = [k \in Keys |-> NoRec]
        /\ now = 0 /\ nextVer = 1 /\ known = {}
        /\ hist = <<[op |-> "New"]>>

Do(call) == LET a == Apply(St, call)
            IN /\ store' = a.s.store /\ now' = a.s.now /\ nextVer' = a.s.nextVer /\ known' = a.s.known
               /\ hist' = Append(hist, a.res)

Next == \E call \in Calls(St) : Do(call)
vars == <<store, now, nextVer, known, hist>>
Spec == Init /\ [][Next]_vars

\* ---- invariants of the contract ------------------------------------------------
\* every stored version was handed out, no two live records share one
VersionsFresh == /\ \A k \in Keys : Present(St, k) => store[k].ver < nextVer
                 /\ \A k1, k2 \in Keys : (k1 # k2 /\ Present(St, k1) /\ Present(St, k2)) => store[k1].ver # store[k2].ver
\* C06: nothing expired is ever visible, nothing unexpired is ever dropped by time
NoExpiredVisible == \A k \in Keys : Present(St, k) => (store[k].exp = 0 \/ now <= store[k].exp)
KnownIssued == \A v \in known : v >= 1 /\ v < nextVer

\* ---- VIEW: version numbers are abstracted to what a client can do with them ----
View == <<[k \in Keys |-> IF Present(St, k)
                          THEN [val |-> store[k].val, exp |-> store[k].exp, curKnown |-> store[k].ver \in known]
                          ELSE NoRec],
          now, (known \ CurVers(St)) # {}>>
\* ---- probe epilogue -------------------------------------------------------------
\* A test that ends with the edge's own call does not show what that call did to state the
\* abstract store does not distinguish (a TTL kept by the server, a version not refreshed).
\* Every emitted behaviour is therefore closed by a contract-derived probe: read everything,
\* list everything, and - when the configuration has time - let time pass twice and read again.
RECURSIVE ApplySeq(_, _)
ApplySeq(s, calls) == IF calls = <<>> THEN <<>>
                      ELSE LET a == Apply(s, calls[1]) IN <<a.res>> \o ApplySeq(a.s, Tail(calls))
KeySeq == SetToSeq(Keys)
ProbeCalls == LET look == <<[op |-> "GetMany", ks |-> KeySeq], [op |-> "ListKeys", pat |-> <<"*">>]>>
              IN IF MaxNow > 0 THEN look \o <<[op |-> "Advance"]>> \o look \o <<[op |-> "Advance"]>> \o look
                 ELSE look
ProbeRes(s) == ApplySeq(s, ProbeCalls)
Emit == EmitHist(hist' \o ProbeRes([store |-> store', now |-> now', nextVer |-> nextVer', known |-> known']))
\* simulation mode: emit only complete behaviours (the history has reached the simulation depth)
EmitLast == IF "VERIF_EMIT_MINLEN" \in DOMAIN IOEnv /\ Len(hist') < atoi(IOEnv.VERIF_EMIT_MINLEN)
            THEN TRUE ELSE EmitHist(hist')
DepthBound(d) == Len(hist) <= d
=============================================================================
