------------------------------ MODULE KvStoreMC ------------------------------
(* Model-checking constants for KvStore (cfg files cannot hold tuples).      *)
EXTENDS KvStore
CONSTANT Depth
Keys2 == {<<"a">>, <<"d", "/", "b">>}
Keys3 == {<<"a">>, <<"d", "/", "b">>, <<"a", "b">>}
Pats5 == {<<"*">>, <<"a", "*">>, <<"d", "/", "*">>, <<"?">>, <<"*", "b">>, <<"x">>}
Pats2 == {<<"*">>, <<"a", "*">>}
\* keys that differ only by a trailing slash, and patterns ending in one
KeysT == {<<"a">>, <<"a", "/">>}
PatsT == {<<"*">>, <<"a", "/">>, <<"a", "*">>, <<"*", "/">>, <<"a">>}
Keys1 == {<<"a">>}
Bound == DepthBound(Depth)
=============================================================================
