------------------------------ MODULE KvStoreMC ------------------------------
(* Model-checking constants for KvStore (cfg files cannot hold tuples).      *)
EXTENDS KvStore
CONSTANT Depth
Keys2 == {<<"a">>, <<"d", "/", "b">>}
Keys3 == {<<"a">>, <<"d", "/", "b">>, <<"a", "b">>}
Pats5 == {<<"*">>, <<"a", "*">>, <<"d", "/", "*">>, <<"?">>, <<"*", "b">>, <<"x">>}
Pats2 == {<<"*">>, <<"a", "*">>}
\* ... plus patterns without any wildcard: a literal key is a pattern too (an expired record must not be listed by it either)
Pats3 == {<<"*">>, <<"a", "*">>, <<"a">>, <<"d", "/", "b">>}
\* keys that differ only by a trailing slash, and patterns ending in one
KeysT == {<<"a">>, <<"a", "/">>}
PatsT == {<<"*">>, <<"a", "/">>, <<"a", "*">>, <<"*", "/">>, <<"a">>}
Keys1 == {<<"a">>}
\* gobwas-only syntax (in-memory backend): alternatives alone, next to literals and wildcards, character classes
PatsG == {<<"{a,ab}">>, <<"{a,d/b}">>, <<"d", "/", "{b,c}">>, <<"{a,x}", "*">>, <<"a", "{b,c}">>, <<"{ab,d/b}">>,
          <<"[!d]", "*">>, <<"[!a-c]", "*">>, <<"[ab]">>, <<"a", "[a-c]">>}
\* a key that contains a metacharacter, and the patterns that mean it literally (escape) or as a wildcard;
\* the EMPTY key next to an ordinary one
KeysS == {<<"a", "*", "b">>, <<"a", "x", "b">>, <<>>}
PatsS == {<<"a", "\\*", "b">>, <<"a", "*", "b">>, <<"a", "\\*", "*">>, <<"*">>, <<"a", "\\?", "b">>, <<"?", "*">>}
\* classes both matchers spell the same way
PatsC == {<<"[ab]">>, <<"a", "[a-c]">>, <<"[a-c]", "*">>, <<"*", "[ab]">>}
Bound == DepthBound(Depth)
=============================================================================
