------------------------------- MODULE KvWait -------------------------------
(* C07 - contract of kvs.Storage.WaitForVersionChange(ctx, key, ver).         *)
(*                                                                            *)
(* The store itself is the sequential contract KvStore.tla (KV!Apply is the   *)
(* single definition of what a mutation does and replies).  On top of it a    *)
(* table of waiters:                                                           *)
(*                                                                            *)
(*   wt[w] = [st  : "idle" | "in"      w is outside / inside the call         *)
(*            k, ver                   the arguments of the call              *)
(*            ctx : BOOLEAN            its context is done                    *)
(*            may : SUBSET Replies]    replies whose condition has held at    *)
(*                                     SOME state since the invocation        *)
(*                                                                            *)
(* The three conditions of the property, evaluated on a store state s:        *)
(*   "nil"       k is present and its version differs from ver                *)
(*   "notexist"  k is absent (never written, deleted or expired - C06)        *)
(*   "ctx"       the waiter's context is done                                 *)
(*                                                                            *)
(* SAFETY  ("never invents a change"): a call may return r only if            *)
(*   r \in wt[w].may, i.e. r's condition held at some point between the       *)
(*   invocation and the return (FReturn).  Errors outside the three replies   *)
(*   (a transient Redis error) are left open by the property: the adapters    *)
(*   accept them only where they injected a fault.                            *)
(* PROGRESS ("never misses a change"): Overdue(w) = some condition holds now. *)
(*   Lemma DueMonotone (TLC-checked on FineSpec): once some condition holds   *)
(*   for a waiter, some condition holds for it in every later state (versions *)
(*   never repeat: "differs" can only turn into "absent" and back), so        *)
(*   Overdue(w) <=> wt[w].may # {} and "has held continuously since the last  *)
(*   harness step" is simply "holds in the settled state".  A waiter that is  *)
(*   still inside the call when the harness gives up waiting (event `stuck`)  *)
(*   although Overdue(w) is a violation.                                      *)
(*                                                                            *)
(* Two state machines over these definitions:                                 *)
(*  - FineSpec: invocation, mutation, cancellation and return are separate    *)
(*    atomic steps in any order.  InmemWaitImpl.tla refines it; KvWaitTrace   *)
(*    validates recorded concurrent executions against it.                    *)
(*  - Spec (the SCRIPT machine, spec -> code): the harness serialises the     *)
(*    commands {Start waiter (current / stale / unknown version, context      *)
(*    already done or not), Cancel waiter, Put, Put-with-expiry, PutMany,     *)
(*    CasByVersion ok/conflict/notexist, Delete, Create, Advance (time)} and  *)
(*    SETTLES after each one: every overdue waiter has to return, with a      *)
(*    reply from its `may` set; every other waiter has to stay blocked.       *)
(*    The history `hist` carries, for each command, the store's reply         *)
(*    (KvStore) and the prescribed outcome of every waiter (field ws).        *)
(*    Replies are deterministic except where two conditions hold at once      *)
(*    (context done AND version differs / key absent: either reply).          *)
EXTENDS Integers, Sequences, FiniteSets, Emit

CONSTANTS Keys,      \* keys (tuples of one-character strings, as in KvStore)
          Waiters,   \* 1 .. N
          MaxCalls,  \* script: at most MaxCalls WaitForVersionChange calls per behaviour
          MaxNow,    \* script: Advance enabled while now < MaxNow (0: no time)
          WithExp,   \* script: Put-with-expiry command present
          WithMany   \* script: PutMany command present

VARIABLES store, now, nextVer, known,   \* the KvStore state
          wt,                           \* waiter table
          calls, hist                   \* script machine only

KV == INSTANCE KvStore WITH Pats <- {}, InVals <- {"x"}, ExpClasses <- {"none", "s1"}, ManyLen <- 2

St == [store |-> store, now |-> now, nextVer |-> nextVer, known |-> known]
Idle == [st |-> "idle", k |-> <<>>, ver |-> 0, ctx |-> FALSE, may |-> {}]
InCall(W, w) == W[w].st = "in"

\* ---- the contract proper ----------------------------------------------------
\* replies whose condition holds for waiter record x in store state s
Holds(s, x) ==
    (IF KV!Present(s, x.k) /\ s.store[x.k].ver # x.ver THEN {"nil"} ELSE {})
    \cup (IF ~KV!Present(s, x.k) THEN {"notexist"} ELSE {})
    \cup (IF x.ctx THEN {"ctx"} ELSE {})

\* every waiter inside the call remembers what has held
Note(s, W) == [w \in DOMAIN W |-> IF InCall(W, w) THEN [W[w] EXCEPT !.may = @ \cup Holds(s, W[w])] ELSE W[w]]

Overdue(w) == InCall(wt, w) /\ Holds(St, wt[w]) # {}

\* PutMany is not required to be atomic across its entries: note every intermediate state
RECURSIVE NoteEntries(_, _, _)
NoteEntries(s, W, recs) ==
    IF recs = <<>> THEN W
    ELSE LET s1 == KV!Write(s, recs[1].k, recs[1].val, recs[1].exp)
         IN NoteEntries(s1, Note(s1, W), Tail(recs))

KnownAfter(s) == s.known \cup KV!CurVers(s)

\* a store call: new store state, the store's reply, the waiters' notes
AfterCall(s, W, call) ==
    LET a  == KV!Apply(s, call)
        W1 == IF call.op = "PutMany" THEN NoteEntries(s, W, call.recs) ELSE W
    IN [s |-> [a.s EXCEPT !.known = KnownAfter(a.s)], res |-> a.res, W |-> Note(a.s, W1)]

Invoked(s, W, w, k, ver, pre) ==
    LET x == [st |-> "in", k |-> k, ver |-> ver, ctx |-> pre, may |-> {}]
    IN [W EXCEPT ![w] = [x EXCEPT !.may = Holds(s, x)]]

Cancelled(W, w) == [W EXCEPT ![w].ctx = TRUE, ![w].may = @ \cup {"ctx"}]

SetStore(s) == /\ store' = s.store /\ now' = s.now /\ nextVer' = s.nextVer /\ known' = s.known
SameStore == UNCHANGED <<store, now, nextVer, known>>

\* ---- FineSpec: every interleaving of invocations, mutations, cancels, returns ----
FInvoke(w, k, ver, pre) == /\ wt[w].st = "idle"
                           /\ wt' = Invoked(St, wt, w, k, ver, pre)
                           /\ SameStore
FMutate(call) == LET r == AfterCall(St, wt, call) IN SetStore(r.s) /\ wt' = r.W
FCancel(w) == /\ InCall(wt, w) /\ ~wt[w].ctx
              /\ wt' = Cancelled(wt, w) /\ SameStore
\* SAFETY: the only way out of the call
FReturn(w, r) == /\ InCall(wt, w) /\ r \in wt[w].may
                 /\ wt' = [wt EXCEPT ![w] = Idle] /\ SameStore

FineCalls(s) ==
    {[op |-> "Put", k |-> k, val |-> "x", exp |-> e] : k \in Keys, e \in {"none", "s1"}}
    \cup {[op |-> "PutMany", recs |-> [j \in 1 .. Len(ks) |-> [k |-> ks[j], val |-> "x", exp |-> "none"]]] :
              ks \in KV!SeqsUpTo(Keys, 2)}
    \cup UNION {{[op |-> "Cas", k |-> k, arg |-> a, val |-> "x", exp |-> "none"] : a \in 0 .. s.nextVer - 1} : k \in Keys}
    \cup {[op |-> "Delete", k |-> k] : k \in Keys}
    \cup {[op |-> "Create", k |-> k, val |-> "x", exp |-> "none"] : k \in Keys}
    \cup {[op |-> "Advance"]}

\* a version argument is one handed out earlier or one that never will be (0): versions are
\* opaque, a client cannot guess a future one (the lemma below needs exactly this)
FineNext == \/ \E w \in Waiters, k \in Keys, ver \in 0 .. nextVer - 1, pre \in BOOLEAN : FInvoke(w, k, ver, pre)
            \/ \E call \in FineCalls(St) : FMutate(call)
            \/ \E w \in Waiters : FCancel(w)
            \/ \E w \in Waiters, r \in {"nil", "notexist", "ctx"} : FReturn(w, r)
fvars == <<store, now, nextVer, known, wt>>
FineInit == /\ store = [k \in Keys |-> KV!NoRec] /\ now = 0 /\ nextVer = 1 /\ known = {}
            /\ wt = [w \in Waiters |-> Idle]
FineSpec == FineInit /\ [][FineNext]_fvars

\* Lemma: for a waiter inside the call "something has held" = "something holds now"
DueMonotone == \A w \in Waiters : InCall(wt, w) => ((wt[w].may = {}) <=> (Holds(St, wt[w]) = {}))
\* bound for model-checking FineSpec on its own
FineBound == nextVer <= 4 /\ now <= 2

\* ---- the script machine -------------------------------------------------------
\* what the harness must observe for every waiter once the command has settled
Out(W) == [w \in Waiters |->
             IF W[w].st = "idle" THEN [st |-> "idle"]
             ELSE IF W[w].may = {} THEN [st |-> "blocked", k |-> W[w].k]
             ELSE [st |-> "ret", k |-> W[w].k, may |-> W[w].may]]
\* overdue waiters have returned
Settled(W) == [w \in Waiters |-> IF InCall(W, w) /\ W[w].may # {} THEN Idle ELSE W[w]]

LowestIdle == CHOOSE w \in Waiters : wt[w].st = "idle" /\ \A o \in Waiters : (wt[o].st = "idle" => w <= o)

ScriptCalls(s) ==
    {[op |-> "Put", k |-> k, val |-> "x", exp |-> e] : k \in Keys, e \in (IF WithExp THEN {"none", "s1"} ELSE {"none"})}
    \cup (IF WithMany
          THEN {[op |-> "PutMany", recs |-> [j \in 1 .. Len(ks) |-> [k |-> ks[j], val |-> "x", exp |-> "none"]]] :
                    ks \in KV!SeqsUpTo(Keys, 2)}
          ELSE {})
    \cup UNION {{[op |-> "Cas", k |-> k, arg |-> a, val |-> "x", exp |-> "none"] : a \in KV!VerArgs(s, k)} : k \in Keys}
    \cup {[op |-> "Delete", k |-> k] : k \in Keys}
    \cup {[op |-> "Create", k |-> k, val |-> "x", exp |-> "none"] : k \in Keys}
    \cup (IF s.now < MaxNow THEN {[op |-> "Advance"]} ELSE {})

\* Start the lowest idle waiter (waiters outside the call are interchangeable) on key k with
\* version argument a: the current version, the newest version seen that is not the current
\* one, or one never handed out (0); pre: the context is done before the call is made.
Start(k, a, pre) ==
    /\ calls < MaxCalls
    /\ \E w \in Waiters : wt[w].st = "idle"
    /\ LET w == LowestIdle
           W == Invoked(St, wt, w, k, a, pre)
       IN /\ wt' = Settled(W)
          /\ hist' = Append(hist, [op |-> "Start", w |-> w, k |-> k, arg |-> a, pre |-> pre, ws |-> Out(W)])
    /\ calls' = calls + 1 /\ SameStore

Cancel(w) ==
    /\ InCall(wt, w)
    /\ LET W == Cancelled(wt, w)
       IN /\ wt' = Settled(W)
          /\ hist' = Append(hist, [op |-> "Cancel", w |-> w, ws |-> Out(W)])
    /\ UNCHANGED calls /\ SameStore

Mutate(call) ==
    LET r == AfterCall(St, wt, call)
    IN /\ SetStore(r.s)
       /\ wt' = Settled(r.W)
       /\ hist' = Append(hist, r.res @@ [ws |-> Out(r.W)])
       /\ UNCHANGED calls

Init == FineInit /\ calls = 0 /\ hist = <<[op |-> "New"]>>
Next == \/ \E k \in Keys, pre \in BOOLEAN : \E a \in KV!VerArgs(St, k) : Start(k, a, pre)
        \/ \E w \in Waiters : Cancel(w)
        \/ \E call \in ScriptCalls(St) : Mutate(call)
vars == <<store, now, nextVer, known, wt, calls, hist>>
Spec == Init /\ [][Next]_vars

\* in a settled state a waiter inside the call is blocked for a reason: nothing holds
SettledQuiet == \A w \in Waiters : InCall(wt, w) => (wt[w].may = {} /\ Holds(St, wt[w]) = {} /\ ~wt[w].ctx)
\* ... which means: its key is present and still has the version it waits on
BlockedMeansCurrent == \A w \in Waiters : InCall(wt, w) => (KV!Present(St, wt[w].k) /\ store[wt[w].k].ver = wt[w].ver)
StoreOK == KV!VersionsFresh /\ KV!NoExpiredVisible

\* version numbers are abstracted to what a client can do with them
View == <<[k \in Keys |-> IF KV!Present(St, k) THEN [exp |-> store[k].exp] ELSE KV!NoRec],
          [k \in Keys |-> (known \ (IF KV!Present(St, k) THEN {store[k].ver} ELSE {})) # {}],
          [w \in Waiters |-> <<wt[w].st, wt[w].k>>], now, calls>>
Emit == EmitHist(hist')
=============================================================================
