------------------------------ MODULE KvWaitMC ------------------------------
(* Model-checking constants for KvWait (cfg files cannot hold tuples), and   *)
(* the wrapper that lets TLC check FineSpec on its own.                       *)
EXTENDS KvWait
Keys1 == {<<"a">>}
Keys2 == {<<"a">>, <<"d", "/", "b">>}
FineInitMC == FineInit /\ calls = 0 /\ hist = <<>>
FineNextMC == FineNext /\ UNCHANGED <<calls, hist>>
=============================================================================
