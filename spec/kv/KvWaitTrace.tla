----------------------------- MODULE KvWaitTrace -----------------------------
(* C07, code -> spec: a recorded free-running execution (many waiters, many   *)
(* writers, random cancellations) is accepted iff it is a behaviour of        *)
(* KvWait!FineSpec.  The events, in the order of the harness mutex:           *)
(*   New(keys, nw)            fresh store; calls are numbered 1 .. nw         *)
(*   minv(t, call, ...)       thread t invokes a store call (the harness      *)
(*                            copies the reply of the matching mret event     *)
(*                            into rerr / rver when the round is over)        *)
(*   mret(t, err, ver)        ... and gets its reply                          *)
(*   inv(w, k, ver, pre)      call w = WaitForVersionChange(ctx, k, ver) is   *)
(*                            invoked (pre: its context is already done)      *)
(*   cancel(w)                logged BEFORE the context of w is cancelled     *)
(*   ret(w, r)                call w returned r (logged after the return)     *)
(*   stuck(w)                 the harness gave up waiting for w (seconds)     *)
(*   table(n)                 size of the in-memory waiter table, read when   *)
(*                            every call has returned                         *)
(* Store calls take effect at a silent linearization step Lin(t) between      *)
(* minv and mret (PutMany: one step per entry - the property does not make it *)
(* atomic); the step is taken only if KvStore's reply equals the logged one.  *)
(* Every Lin step and every cancel lets the calls in progress note which of   *)
(* their conditions hold (KvWait!Note), so                                    *)
(*   ret(w, r)   is accepted only if r \in may(w): r's condition held at some *)
(*               point between inv(w) and ret(w)       ("never invents")      *)
(*   stuck(w)    is accepted only if w is not overdue  ("never misses")       *)
(*   table(n)    is accepted only if n = 0             ("nothing left behind")*)
(* Version strings appear as integers numbered by first appearance in the     *)
(* log, and the model stores exactly these numbers (KvStore!Apply is told to  *)
(* hand out the logged number), so different placements of the silent steps   *)
(* that end in the same store are the same state.  A PutMany reply carries no *)
(* versions: its entries get unique negative place-holders that are replaced  *)
(* by the real number when a later reply shows it.                            *)
(* Silent steps are placed as late as possible: only immediately before a     *)
(* response event (mret / ret / stuck) that is not yet enabled without them.  *)
(* Nothing is lost: a linearization point can always be moved later past an   *)
(* invocation or a cancellation (no reply changes, `may` sets only grow) and  *)
(* past a response that is enabled without it; so every accepted placement    *)
(* can be turned into one of this shape.  The search space stays small.       *)
(* Acceptance: the highest line reached over all placements of the silent     *)
(* steps (TraceLib high-water mark; -workers 1, depth-first queue).           *)
EXTENDS TraceLib, FiniteSets

VARIABLES s,      \* KvStore state [store, now, nextVer, known]
          W,      \* calls in progress: call number -> KvWait waiter record
          early,  \* calls whose cancel event came before their inv event
          pend,   \* thread -> pending store call [e, ret, rest, done]
          l

KW == INSTANCE KvWait WITH Keys <- {}, Waiters <- {}, MaxCalls <- 0, MaxNow <- 0, WithExp <- FALSE, WithMany <- FALSE,
                            store <- s.store, now <- s.now, nextVer <- s.nextVer, known <- s.known,
                            wt <- W, calls <- 0, hist <- <<>>
KV == INSTANCE KvStore WITH Keys <- {}, Pats <- {}, InVals <- {}, ExpClasses <- {}, MaxNow <- 0, ManyLen <- 0,
                            store <- s.store, now <- s.now, nextVer <- s.nextVer, known <- s.known, hist <- <<>>

Ev == Trace[l]
More == l <= Len(Trace)
Range(f) == {f[x] : x \in DOMAIN f}

Init == /\ s = [store |-> <<>>, now |-> 0, nextVer |-> 1, known |-> {}]
        /\ W = <<>> /\ early = {} /\ pend = <<>> /\ l = 1
        /\ HighWaterInit

New == /\ More /\ Ev.op = "New"
       /\ s' = [store |-> [k \in Range(Ev.keys) |-> KV!NoRec], now |-> 0, nextVer |-> 1, known |-> {}]
       /\ W' = <<>> /\ early' = {} /\ pend' = <<>> /\ l' = l + 1

\* ---- store calls ---------------------------------------------------------------
CallOf(e) ==
    CASE e.call = "Put"     -> [op |-> "Put", k |-> e.k, val |-> "x", exp |-> "none"]
      [] e.call = "Cas"     -> [op |-> "Cas", k |-> e.k, arg |-> e.arg, val |-> "x", exp |-> "none"]
      [] e.call = "Delete"  -> [op |-> "Delete", k |-> e.k]
      [] e.call = "Create"  -> [op |-> "Create", k |-> e.k, val |-> "x", exp |-> "none"]
      [] e.call = "Get"     -> [op |-> "Get", k |-> e.k]

MInv == /\ More /\ Ev.op = "minv" /\ Ev.t \notin DOMAIN pend
        /\ pend' = pend @@ (Ev.t :> [e |-> Ev, ret |-> [err |-> Ev.rerr, ver |-> Ev.rver], at |-> l,
                                     rest |-> IF Ev.call = "PutMany" THEN Ev.ks ELSE <<>>, done |-> FALSE])
        /\ UNCHANGED <<s, W, early>> /\ l' = l + 1

\* the version a reply carries, per call kind (0: the reply carries none)
ReplyVer(res) ==
    CASE res.op = "Put" -> res.ver
      [] res.op = "Cas" /\ res.err = "nil" -> res.ver
      [] res.op = "Create" -> res.ver                      \* new version, or the existing one with ErrExist
      [] res.op = "Get" /\ res.err = "nil" -> res.rec.ver
      [] OTHER -> 0

\* silent steps are placed only immediately before a response event that needs one
BeforeResponse ==
    /\ More
    /\ CASE Ev.op = "mret"  -> Ev.t \in DOMAIN pend /\ ~pend[Ev.t].done
         [] Ev.op = "ret"   -> Ev.w \in DOMAIN W /\ Ev.r \in {"nil", "notexist"} /\ Ev.r \notin W[Ev.w].may
         [] Ev.op = "stuck" -> \E t \in DOMAIN pend : ~pend[t].done
         [] OTHER -> FALSE

\* the store as thread t's reply shows it: a place-holder version of the key is the logged one;
\* and the next version to hand out is the logged one
Seen(p) ==
    LET k == p.e.k
        s1 == IF p.ret.ver # 0 /\ KV!Present(s, k) /\ s.store[k].ver < 0 /\ p.e.call \in {"Get", "Create"}
              THEN [s EXCEPT !.store[k].ver = p.ret.ver] ELSE s
    IN [s1 EXCEPT !.nextVer = p.ret.ver, !.known = {}]

\* silent: the pending call of thread t takes effect now
Lin(t) ==
    /\ BeforeResponse
    /\ t \in DOMAIN pend /\ ~pend[t].done /\ pend[t].e.call # "PutMany"
    /\ LET p == pend[t]
           a == KW!AfterCall(Seen(p), W, CallOf(p.e))
       IN /\ a.res.err = p.ret.err
          /\ ReplyVer(a.res) = p.ret.ver
          /\ s' = [a.s EXCEPT !.known = {}] /\ W' = a.W
    /\ pend' = [pend EXCEPT ![t].done = TRUE]
    /\ UNCHANGED early /\ l' = l

\* silent: the next entry of a pending PutMany takes effect now, under a place-holder version
LinEntry(t) ==
    /\ BeforeResponse
    /\ t \in DOMAIN pend /\ ~pend[t].done /\ pend[t].e.call = "PutMany"
    /\ pend[t].ret.err = "nil"
    /\ LET p == pend[t]
           a == KW!AfterCall([s EXCEPT !.nextVer = 0 - (4 * p.at + Len(p.rest))], W,
                             [op |-> "Put", k |-> Head(p.rest), val |-> "x", exp |-> "none"])
       IN /\ s' = [a.s EXCEPT !.known = {}] /\ W' = a.W
          /\ pend' = [pend EXCEPT ![t].rest = Tail(p.rest), ![t].done = (Len(p.rest) = 1)]
    /\ UNCHANGED early /\ l' = l

MRet == /\ More /\ Ev.op = "mret" /\ Ev.t \in DOMAIN pend /\ pend[Ev.t].done
        /\ Ev.err = pend[Ev.t].ret.err /\ Ev.ver = pend[Ev.t].ret.ver
        /\ pend' = [t \in DOMAIN pend \ {Ev.t} |-> pend[t]]
        /\ UNCHANGED <<s, W, early>> /\ l' = l + 1

\* ---- the waiters ---------------------------------------------------------------
\* call numbers are never reused within a round
Inv == /\ More /\ Ev.op = "inv" /\ Ev.w \notin DOMAIN W
       /\ LET x == [st |-> "in", k |-> Ev.k, ver |-> Ev.ver, ctx |-> Ev.pre \/ Ev.w \in early, may |-> {}]
          IN W' = W @@ (Ev.w :> [x EXCEPT !.may = KW!Holds(s, x)])
       /\ UNCHANGED <<s, pend, early>> /\ l' = l + 1

\* the cancel event is logged before the context is cancelled; it may even precede the call's
\* inv event (different goroutines), or come after its ret event (no effect)
CancelEv == /\ More /\ Ev.op = "cancel"
            /\ IF Ev.w \in DOMAIN W THEN W' = KW!Cancelled(W, Ev.w) /\ early' = early
               ELSE W' = W /\ early' = early \cup {Ev.w}
            /\ UNCHANGED <<s, pend>> /\ l' = l + 1

\* SAFETY: the reply's condition has held at some point since the invocation
Ret == /\ More /\ Ev.op = "ret" /\ Ev.w \in DOMAIN W
       /\ Ev.r \in W[Ev.w].may
       /\ W' = [w \in DOMAIN W \ {Ev.w} |-> W[w]]
       /\ UNCHANGED <<s, pend, early>> /\ l' = l + 1

\* PROGRESS: the harness gave up on w after seconds of a quiescent store: w must not be overdue
Stuck == /\ More /\ Ev.op = "stuck" /\ Ev.w \in DOMAIN W
         /\ \A t \in DOMAIN pend : pend[t].done
         /\ KW!Holds(s, W[Ev.w]) = {}
         /\ UNCHANGED <<s, W, pend, early>> /\ l' = l + 1

\* NO RESIDUE: read when every call has returned
Table == /\ More /\ Ev.op = "table"
         /\ (DOMAIN W = {}) => Ev.n = 0
         /\ UNCHANGED <<s, W, pend, early>> /\ l' = l + 1

\* (the depth-first queue explores the LAST successor first: the call whose reply is next)
OwnThread == IF More /\ Ev.op = "mret" THEN {Ev.t} ELSE {}
Next == \/ New \/ MInv \/ MRet \/ Inv \/ CancelEv \/ Ret \/ Stuck \/ Table
        \/ \E t \in DOMAIN pend \ OwnThread : Lin(t) \/ LinEntry(t)
        \/ \E t \in DOMAIN pend \cap OwnThread : Lin(t) \/ LinEntry(t)
Spec == Init /\ [][Next]_<<s, W, early, pend, l>>

\* high-water mark of the cursor; the search stops as soon as the whole trace is matched
Progress == HighWater(l) /\ (IF l = Len(Trace) + 1 THEN TLCSet("exit", TRUE) ELSE TRUE)
Accepted == AcceptByHighWater
=============================================================================
