------------------------------ MODULE PromptTrace ------------------------------
(* C07 "it does return promptly", Redis backend: a WaitForVersionChange that has   *)
(* been idle for idle_ms must return within Bound ms of the change it waits for    *)
(* (the implementation polls with a back-off capped at 100 ms), with the reply the  *)
(* change calls for.  One-sided, generous bound; scenarios during which the host    *)
(* stalled (stall_ms > 150) were repeated by the harness and are not judged here.   *)
(* "deadline" events: a waiter whose context carries a deadline.  change = none: nothing happens to the key - the call       *)
(* returns the context's error, and the context IS done when it returns (never a little early "because the next poll would   *)
(* come too late"); change = expire: the record runs out long before the deadline - ErrNotExist within Bound of the expiry  *)
(* (expire2: another waiter had registered first and gave up before); putprev: the new value mentions the old version.      *)
EXTENDS TraceLib
CONSTANT Bound
VARIABLE l
Ev == Trace[l]
Ok(e) == /\ e.stall_ms > 150 \/ e.late_ms <= Bound
         \* whatever write replaced the record with a live one: nil; whatever removed it - a Delete, or a Put / PutMany /
         \* CasByVersion of a record that is already expired when it arrives (an expired record is a deleted one): ErrNotExist
         /\ e.res = (IF e.change \in {"put", "putprev", "putmany", "cas"} THEN "nil" ELSE "notexist")
OkDeadline(e) ==
    IF e.change = "none"
    THEN /\ e.res = "ctxerr" /\ e.ctxdone
         /\ e.stall_ms > 150 \/ e.late_ms <= Bound
    ELSE /\ e.res = "notexist"
         /\ e.stall_ms > 150 \/ e.late_ms <= Bound
\* "brief": n records that lived for microseconds, each with one waiter and nobody touching the key afterwards
OkBrief(e) == e.stall_ms > 150 \/ (e.hung = 0 /\ e.wrong = 0)
Init == l = 1
Next == /\ l <= Len(Trace) /\ l' = l + 1
        /\ \/ Ev.e = "prompt" /\ Ok(Ev)
           \/ Ev.e = "deadline" /\ OkDeadline(Ev)
           \/ Ev.e = "brief" /\ OkBrief(Ev)
Spec == Init /\ [][Next]_l
Accepted == AcceptByDiameter
=============================================================================
