------------------------------ MODULE PromptTrace ------------------------------
(* C07 "it does return promptly", Redis backend: a WaitForVersionChange that has   *)
(* been idle for idle_ms must return within Bound ms of the change it waits for    *)
(* (the implementation polls with a back-off capped at 100 ms), with the reply the  *)
(* change calls for.  One-sided, generous bound; scenarios during which the host    *)
(* stalled (stall_ms > 150) were repeated by the harness and are not judged here.   *)
EXTENDS TraceLib
CONSTANT Bound
VARIABLE l
Ev == Trace[l]
Ok(e) == /\ e.stall_ms > 150 \/ e.late_ms <= Bound
         /\ e.res = (IF e.change = "put" THEN "nil" ELSE "notexist")
Init == l = 1
Next == l <= Len(Trace) /\ Ev.e = "prompt" /\ Ok(Ev) /\ l' = l + 1
Spec == Init /\ [][Next]_l
Accepted == AcceptByDiameter
=============================================================================
