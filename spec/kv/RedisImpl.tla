------------------------------ MODULE RedisImpl ------------------------------
(* C02, design level: the Redis backend (kvs/redis/redis.go) as the separate   *)
(* server round-trips it really performs, for a few concurrent clients, and    *)
(* TLC checking that every interleaving is linearizable with respect to the    *)
(* sequential contract KvStore!Apply.                                          *)
(*                                                                            *)
(* Server side (one Redis, commands are atomic):                               *)
(*   db     key -> NoRec | [val, ver, exp]   (the marshalled kvs.Record)       *)
(*   watch  client -> keys it WATCHes;  dirty  client -> a watched key was     *)
(*          written (SET / SETNX / MSET / DEL) since the WATCH                 *)
(* Client side, one action per round-trip of redis.go:                          *)
(*   Create        v := NewID; loop { SETNX -> done | GET -> ErrExist(ver) |    *)
(*                 key gone in between -> again }                              *)
(*   Get / Put / Delete      GET / (v := NewID; SET) / DEL                      *)
(*   GetMany / PutMany       MGET / all v := NewID; MSET  (no expirations), or  *)
(*                 one (v := NewID; SET) per record (some expiration)           *)
(*   CasByVersion  loop { WATCH; GET -> ErrNotExist | ErrConflict |             *)
(*                 v := NewID; MULTI SET EXEC -> done | EXEC failed -> again }  *)
(* NewID is a global counter: ULIDs of different clients never collide (this   *)
(* is an assumption about ulidutils, not something checked here).              *)
(*                                                                            *)
(* Linearizability is shown by forward simulation with FIXED linearization     *)
(* points: `astore` is the abstract store; at the round-trip named below the    *)
(* call is applied to it with KvStore!Apply and the contract's reply is kept   *)
(* in arep[c]; TLC checks                                                      *)
(*   RefMap   db = astore after every step, and                                *)
(*   LinOK    a client that is about to return has linearized every part of    *)
(*            its call, and the reply it assembled from the server's answers   *)
(*            is the reply the contract fixed at the linearization point.      *)
(* Linearization points: successful SETNX; the GET that finds the record       *)
(* (ErrExist); GET; SET; DEL; MGET; MSET (all entries, in order); every SET of  *)
(* the PutMany loop; for CAS the GET that finds no record / another version,   *)
(* or the successful EXEC (no write touched the key since WATCH, so the        *)
(* version read is still the stored one).                                      *)
(* The three statements the property singles out are also checked directly,    *)
(* on history variables: AtMostOneCreator / ExactlyOneCreator, CasOncePerVer,  *)
(* FreshVersions.                                                              *)
(*                                                                            *)
(* Bug (a constant) re-creates the defects that were repaired in /repo and one *)
(* classic mistake; the check runs them as negative controls: TLC must find a  *)
(* violation for each, otherwise the model would be too weak to mean anything. *)
(*   "cas_no_retry"        EXEC failure is returned to the caller (3e9b67b)    *)
(*   "mset_keeps_version"  the MSET branch stores the caller's Version (cc59ad2)*)
(*   "create_set"          Create uses SET instead of SETNX                     *)
(*   "cas_no_watch"        GET and SET of the CAS without WATCH/EXEC           *)
EXTENDS Integers, Sequences, FiniteSets, TLC

CONSTANTS Clients,     \* set of model values
          RKeys,       \* key strings
          MaxOps,      \* calls per client
          Ops,         \* which calls clients issue: subset of {"Create","Get","Put","Delete","Cas","GetMany","PutMany"}
          Bug          \* "none" or one of the names above

VARIABLES db, watch, dirty,          \* server
          nextVer,                   \* NewID
          pc, call, rep, seen, ndone,\* clients: program counter, current call, reply being assembled, versions observed, calls finished
          astore, arep, alin,        \* abstract store; per client: contract replies, number of parts linearized
          nCreateOk, nDelOk, nCreateTried, casWon, casTwice, installed, stale, preloaded   \* history

vars == <<db, watch, dirty, nextVer, pc, call, rep, seen, ndone, astore, arep, alin,
          nCreateOk, nDelOk, nCreateTried, casWon, casTwice, installed, stale, preloaded>>

KV == INSTANCE KvStore WITH Keys <- RKeys, Pats <- {}, InVals <- {}, ExpClasses <- {}, MaxNow <- 0,
                            ManyLen <- 0, store <- astore, now <- 0, known <- {}, hist <- <<>>
NoRec == KV!NoRec
KeySeq == CHOOSE s \in [1 .. Cardinality(RKeys) -> RKeys] : \A i, j \in 1 .. Cardinality(RKeys) : i # j => s[i] # s[j]
ExpOf(e) == IF e = "none" THEN 0 ELSE 99            \* KvStore!AbsExp at now = 0
Rec(v, e) == [val |-> "x", ver |-> v, exp |-> ExpOf(e)]

\* ---- abstract side -------------------------------------------------------------
\* apply one contract call under version w, remember its reply for client c
AbsApply(c, acall, w) ==
    LET a == KV!Apply([store |-> astore, now |-> 0, nextVer |-> w, known |-> {}], acall)
    IN /\ astore' = a.s.store
       /\ arep' = [arep EXCEPT ![c] = Append(@, a.res)]
       /\ alin' = [alin EXCEPT ![c] = @ + 1]
AbsSkip == UNCHANGED <<astore, arep, alin>>

\* ---- server side ---------------------------------------------------------------
\* a write to the keys ks marks every client watching one of them
Touched(ks) == [c \in Clients |-> dirty[c] \/ (watch[c] \cap ks # {})]

\* bookkeeping of a write that installs version v
Installs(vs) == /\ stale' = (stale \/ \E v \in vs : v \in installed \/ v <= 0)
                /\ installed' = installed \cup vs
NoInstall == UNCHANGED <<installed, stale>>

\* ---- client actions ------------------------------------------------------------
VerArgs(c) == {0} \cup seen[c]

CallsOf(c) ==
    (IF "Create" \in Ops THEN {[op |-> "Create", k |-> k, val |-> "x", exp |-> "none"] : k \in RKeys} ELSE {})
    \cup (IF "Get" \in Ops THEN {[op |-> "Get", k |-> k] : k \in RKeys} ELSE {})
    \cup (IF "Put" \in Ops THEN {[op |-> "Put", k |-> k, val |-> "x", exp |-> "none"] : k \in RKeys} ELSE {})
    \cup (IF "Delete" \in Ops THEN {[op |-> "Delete", k |-> k] : k \in RKeys} ELSE {})
    \cup (IF "Cas" \in Ops THEN {[op |-> "Cas", k |-> k, arg |-> a, val |-> "x", exp |-> "none"] : k \in RKeys, a \in VerArgs(c)} ELSE {})
    \cup (IF "GetMany" \in Ops THEN {[op |-> "GetMany", ks |-> KeySeq]} ELSE {})
    \cup (IF "PutMany" \in Ops
          THEN {[op |-> "PutMany", recs |-> [j \in 1 .. Len(KeySeq) |-> [k |-> KeySeq[j], val |-> "x", exp |-> e]]] : e \in {"none", "long"}}
          ELSE {})

FirstPc(cl) == CASE cl.op = "Create"  -> "setnx"
                 [] cl.op = "Get"     -> "get"
                 [] cl.op = "Put"     -> "set"
                 [] cl.op = "Delete"  -> "del"
                 [] cl.op = "Cas"     -> IF Bug = "cas_no_watch" THEN "tx_get" ELSE "watch"
                 [] cl.op = "GetMany" -> "mget"
                 [] cl.op = "PutMany" -> IF cl.recs[1].exp = "none" THEN "mset" ELSE "pm_loop"

\* the call starts; versions that redis.go generates before its first round-trip are taken here
Start(c) ==
    /\ pc[c] = "idle" /\ ndone[c] < MaxOps
    /\ \E cl \in CallsOf(c) :
         LET nv == CASE cl.op \in {"Create", "Put"} -> 1
                     [] cl.op = "PutMany" /\ cl.recs[1].exp = "none" -> Len(cl.recs)
                     [] OTHER -> 0
         IN /\ call' = [call EXCEPT ![c] = cl @@ [myver |-> nextVer, i |-> 1]]
            /\ nextVer' = nextVer + nv
            /\ pc' = [pc EXCEPT ![c] = FirstPc(cl)]
            /\ nCreateTried' = IF cl.op = "Create" THEN [nCreateTried EXCEPT ![cl.k] = @ + 1] ELSE nCreateTried
    /\ rep' = [rep EXCEPT ![c] = [none |-> TRUE]]
    /\ arep' = [arep EXCEPT ![c] = <<>>] /\ alin' = [alin EXCEPT ![c] = 0]
    /\ UNCHANGED <<db, watch, dirty, seen, ndone, astore, nCreateOk, nDelOk, casWon, casTwice, installed, stale, preloaded>>

Unchanged1 == UNCHANGED <<nextVer, seen, ndone, nCreateTried, preloaded>>

\* Create: SETNX
Setnx(c) ==
    /\ pc[c] = "setnx"
    /\ LET k == call[c].k  v == call[c].myver
       IN IF db[k] = NoRec \/ Bug = "create_set"
          THEN /\ db' = [db EXCEPT ![k] = Rec(v, "none")]
               /\ dirty' = Touched({k})
               /\ rep' = [rep EXCEPT ![c] = [err |-> "nil", ver |-> v]]
               /\ pc' = [pc EXCEPT ![c] = "ret"]
               /\ AbsApply(c, [op |-> "Create", k |-> k, val |-> "x", exp |-> "none"], v)      \* linearization point
               /\ nCreateOk' = [nCreateOk EXCEPT ![k] = @ + 1]
               /\ Installs({v})
          ELSE /\ pc' = [pc EXCEPT ![c] = "cr_get"]
               /\ AbsSkip /\ NoInstall
               /\ UNCHANGED <<db, dirty, rep, nCreateOk>>
    /\ Unchanged1 /\ UNCHANGED <<watch, call, nDelOk, casWon, casTwice>>

\* Create: the GET after a failed SETNX
CrGet(c) ==
    /\ pc[c] = "cr_get"
    /\ LET k == call[c].k
       IN IF db[k] # NoRec
          THEN /\ rep' = [rep EXCEPT ![c] = [err |-> "exist", ver |-> db[k].ver]]
               /\ pc' = [pc EXCEPT ![c] = "ret"]
               /\ AbsApply(c, [op |-> "Create", k |-> k, val |-> "x", exp |-> "none"], 0)      \* linearization point
          ELSE /\ pc' = [pc EXCEPT ![c] = "setnx"]                                             \* gone in between: again
               /\ AbsSkip /\ UNCHANGED rep
    /\ NoInstall /\ Unchanged1
    /\ UNCHANGED <<db, watch, dirty, call, nCreateOk, nDelOk, casWon, casTwice>>

Get(c) ==
    /\ pc[c] = "get"
    /\ LET k == call[c].k
       IN /\ rep' = [rep EXCEPT ![c] = IF db[k] = NoRec THEN [err |-> "notexist"] ELSE [err |-> "nil", rec |-> db[k]]]
          /\ AbsApply(c, [op |-> "Get", k |-> k], 0)                                           \* linearization point
    /\ pc' = [pc EXCEPT ![c] = "ret"]
    /\ NoInstall /\ Unchanged1
    /\ UNCHANGED <<db, watch, dirty, call, nCreateOk, nDelOk, casWon, casTwice>>

Set(c) ==
    /\ pc[c] = "set"
    /\ LET k == call[c].k  v == call[c].myver
       IN /\ db' = [db EXCEPT ![k] = Rec(v, "none")]
          /\ dirty' = Touched({k})
          /\ rep' = [rep EXCEPT ![c] = [err |-> "nil", ver |-> v]]
          /\ AbsApply(c, [op |-> "Put", k |-> k, val |-> "x", exp |-> "none"], v)              \* linearization point
          /\ Installs({v})
    /\ pc' = [pc EXCEPT ![c] = "ret"]
    /\ Unchanged1 /\ UNCHANGED <<watch, call, nCreateOk, nDelOk, casWon, casTwice>>

Del(c) ==
    /\ pc[c] = "del"
    /\ LET k == call[c].k
       IN /\ db' = [db EXCEPT ![k] = NoRec]
          /\ dirty' = IF db[k] = NoRec THEN dirty ELSE Touched({k})
          /\ rep' = [rep EXCEPT ![c] = [err |-> IF db[k] = NoRec THEN "notexist" ELSE "nil"]]
          /\ nDelOk' = IF db[k] = NoRec THEN nDelOk ELSE [nDelOk EXCEPT ![k] = @ + 1]
          /\ AbsApply(c, [op |-> "Delete", k |-> k], 0)                                        \* linearization point
    /\ pc' = [pc EXCEPT ![c] = "ret"]
    /\ NoInstall /\ Unchanged1 /\ UNCHANGED <<watch, call, nCreateOk, casWon, casTwice>>

\* GetMany: MGET is one command
Mget(c) ==
    /\ pc[c] = "mget"
    /\ LET ks == call[c].ks
       IN /\ rep' = [rep EXCEPT ![c] = [err |-> "nil", recs |-> [j \in 1 .. Len(ks) |-> db[ks[j]]]]]
          /\ AbsApply(c, [op |-> "GetMany", ks |-> ks], 0)                                     \* linearization point (all keys)
    /\ pc' = [pc EXCEPT ![c] = "ret"]
    /\ NoInstall /\ Unchanged1
    /\ UNCHANGED <<db, watch, dirty, call, nCreateOk, nDelOk, casWon, casTwice>>

\* PutMany without expirations: MSET is one command.  Record j carries version myver + j - 1
\* (with the defect: the version the caller left in the record - anything it has seen, or none).
Mset(c) ==
    /\ pc[c] = "mset"
    /\ LET recs == call[c].recs
           n == Len(recs)
       IN \E old \in (IF Bug = "mset_keeps_version" THEN VerArgs(c) ELSE {-1}) :
          LET verOf(j) == IF Bug = "mset_keeps_version" THEN old ELSE call[c].myver + j - 1
              RECURSIVE AbsMany(_, _)
              AbsMany(st, j) == IF j > n THEN st
                                ELSE AbsMany(KV!Apply([store |-> st, now |-> 0, nextVer |-> verOf(j), known |-> {}],
                                                      [op |-> "Put", k |-> recs[j].k, val |-> "x", exp |-> "none"]).s.store, j + 1)
          IN /\ db' = [k \in RKeys |-> IF \E j \in 1 .. n : recs[j].k = k
                                       THEN Rec(verOf(CHOOSE j \in 1 .. n : recs[j].k = k /\ \A j2 \in j + 1 .. n : recs[j2].k # k), "none")
                                       ELSE db[k]]
             /\ dirty' = Touched({recs[j].k : j \in 1 .. n})
             /\ astore' = AbsMany(astore, 1)                                                   \* linearization point (all entries, in order)
             /\ alin' = [alin EXCEPT ![c] = n]
             /\ arep' = [arep EXCEPT ![c] = <<[err |-> "nil"]>>]
             /\ Installs({verOf(j) : j \in 1 .. n})
    /\ rep' = [rep EXCEPT ![c] = [err |-> "nil"]]
    /\ pc' = [pc EXCEPT ![c] = "ret"]
    /\ Unchanged1 /\ UNCHANGED <<watch, call, nCreateOk, nDelOk, casWon, casTwice>>

\* PutMany with an expiration: one Put (NewID + SET) per record
PmLoop(c) ==
    /\ pc[c] = "pm_loop"
    /\ LET i == call[c].i
           r == call[c].recs[i]
           v == nextVer
       IN /\ db' = [db EXCEPT ![r.k] = Rec(v, r.exp)]
          /\ dirty' = Touched({r.k})
          /\ nextVer' = nextVer + 1
          /\ AbsApply(c, [op |-> "Put", k |-> r.k, val |-> "x", exp |-> r.exp], v)             \* linearization point of entry i
          /\ Installs({v})
          /\ call' = [call EXCEPT ![c].i = i + 1]
          /\ IF i = Len(call[c].recs)
             THEN pc' = [pc EXCEPT ![c] = "ret"] /\ rep' = [rep EXCEPT ![c] = [err |-> "nil"]]
             ELSE UNCHANGED <<pc, rep>>
    /\ UNCHANGED <<watch, seen, ndone, nCreateTried, nCreateOk, nDelOk, casWon, casTwice, preloaded>>

\* CasByVersion: WATCH key
Watch(c) ==
    /\ pc[c] = "watch"
    /\ watch' = [watch EXCEPT ![c] = {call[c].k}]
    /\ dirty' = [dirty EXCEPT ![c] = FALSE]
    /\ pc' = [pc EXCEPT ![c] = "tx_get"]
    /\ AbsSkip /\ NoInstall /\ Unchanged1
    /\ UNCHANGED <<db, call, rep, nCreateOk, nDelOk, casWon, casTwice>>

\* CasByVersion: GET inside the transaction function, the version comparison, NewID
TxGet(c) ==
    /\ pc[c] = "tx_get"
    /\ LET k == call[c].k
           acall == [op |-> "Cas", k |-> k, arg |-> call[c].arg, val |-> "x", exp |-> "none"]
       IN IF db[k] = NoRec \/ db[k].ver # call[c].arg
          THEN /\ rep' = [rep EXCEPT ![c] = [err |-> IF db[k] = NoRec THEN "notexist" ELSE "conflict"]]
               /\ AbsApply(c, acall, 0)                                                        \* linearization point of a loser
               /\ watch' = [watch EXCEPT ![c] = {}]
               /\ pc' = [pc EXCEPT ![c] = "ret"]
               /\ UNCHANGED <<call, nextVer>>
          ELSE /\ call' = [call EXCEPT ![c].myver = nextVer]
               /\ nextVer' = nextVer + 1
               /\ pc' = [pc EXCEPT ![c] = "exec"]
               /\ AbsSkip /\ UNCHANGED <<rep, watch>>
    /\ NoInstall
    /\ UNCHANGED <<db, dirty, seen, ndone, nCreateTried, nCreateOk, nDelOk, casWon, casTwice, preloaded>>

\* CasByVersion: MULTI / SET / EXEC arrive as one pipeline; EXEC fails iff a watched key was written
Exec(c) ==
    /\ pc[c] = "exec"
    /\ LET k == call[c].k  v == call[c].myver
       IN IF dirty[c] /\ Bug # "cas_no_watch"
          THEN /\ IF Bug = "cas_no_retry"
                  THEN /\ rep' = [rep EXCEPT ![c] = [err |-> "other"]]                         \* "redis: transaction failed"
                       /\ pc' = [pc EXCEPT ![c] = "ret"]
                  ELSE /\ pc' = [pc EXCEPT ![c] = "watch"]                                     \* look again
                       /\ UNCHANGED rep
               /\ AbsSkip /\ NoInstall
               /\ UNCHANGED <<db, dirty, casWon, casTwice>>
          ELSE /\ db' = [db EXCEPT ![k] = Rec(v, "none")]
               /\ dirty' = Touched({k})
               /\ rep' = [rep EXCEPT ![c] = [err |-> "nil", ver |-> v]]
               /\ pc' = [pc EXCEPT ![c] = "ret"]
               /\ AbsApply(c, [op |-> "Cas", k |-> k, arg |-> call[c].arg, val |-> "x", exp |-> "none"], v)   \* linearization point of the winner
               /\ Installs({v})
               /\ casTwice' = (casTwice \/ call[c].arg \in casWon)
               /\ casWon' = casWon \cup {call[c].arg}
    /\ watch' = [watch EXCEPT ![c] = {}]
    /\ Unchanged1 /\ UNCHANGED <<call, nCreateOk, nDelOk>>

\* versions a reply shows to the caller
VersIn(r) == (IF "ver" \in DOMAIN r /\ r.err \in {"nil", "exist"} THEN {r.ver} ELSE {})
             \cup (IF "rec" \in DOMAIN r THEN {r.rec.ver} ELSE {})
             \cup (IF "recs" \in DOMAIN r THEN {r.recs[j].ver : j \in {x \in 1 .. Len(r.recs) : r.recs[x] # NoRec}} ELSE {})

Return(c) ==
    /\ pc[c] = "ret"
    /\ pc' = [pc EXCEPT ![c] = "idle"]
    /\ ndone' = [ndone EXCEPT ![c] = @ + 1]
    /\ seen' = [seen EXCEPT ![c] = @ \cup VersIn(rep[c])]
    /\ call' = [call EXCEPT ![c] = [op |-> "none"]]          \* nothing of a finished call is remembered
    /\ rep' = [rep EXCEPT ![c] = [none |-> TRUE]]
    /\ arep' = [arep EXCEPT ![c] = <<>>] /\ alin' = [alin EXCEPT ![c] = 0]
    /\ UNCHANGED <<db, watch, dirty, nextVer, astore,
                   nCreateOk, nDelOk, nCreateTried, casWon, casTwice, installed, stale, preloaded>>

Step(c) == Start(c) \/ Setnx(c) \/ CrGet(c) \/ Get(c) \/ Set(c) \/ Del(c) \/ Mget(c) \/ Mset(c) \/ PmLoop(c)
           \/ Watch(c) \/ TxGet(c) \/ Exec(c) \/ Return(c)
Next == \E c \in Clients : Step(c)

\* the store is empty, or key KeySeq[1] holds a record whose version 1 every client has already read
Init == /\ preloaded \in BOOLEAN
        /\ db = [k \in RKeys |-> IF preloaded /\ k = KeySeq[1] THEN Rec(1, "none") ELSE NoRec]
        /\ astore = db
        /\ nextVer = 2
        /\ installed = IF preloaded THEN {1} ELSE {}
        /\ seen = [c \in Clients |-> IF preloaded THEN {1} ELSE {}]
        /\ watch = [c \in Clients |-> {}] /\ dirty = [c \in Clients |-> FALSE]
        /\ pc = [c \in Clients |-> "idle"]
        /\ call = [c \in Clients |-> [op |-> "none"]]
        /\ rep = [c \in Clients |-> [none |-> TRUE]]
        /\ ndone = [c \in Clients |-> 0]
        /\ arep = [c \in Clients |-> <<>>] /\ alin = [c \in Clients |-> 0]
        /\ nCreateOk = [k \in RKeys |-> 0] /\ nDelOk = [k \in RKeys |-> 0] /\ nCreateTried = [k \in RKeys |-> 0]
        /\ casWon = {} /\ casTwice = FALSE /\ stale = FALSE

Spec == Init /\ [][Next]_vars

\* ---- what TLC checks -----------------------------------------------------------
\* refinement mapping: the server's records are the abstract store, after every round-trip
RefMap == db = astore

NParts(cl) == CASE cl.op = "PutMany" -> Len(cl.recs) [] OTHER -> 1

\* the reply assembled from the server's answers against the contract's reply
ReplyEq(cl, r, ar) ==
    CASE cl.op \in {"Create"}       -> r.err = ar[1].err /\ r.ver = ar[1].ver
      [] cl.op \in {"Put"}          -> r.err = ar[1].err /\ r.ver = ar[1].ver
      [] cl.op = "Cas"              -> r.err = ar[1].err /\ (r.err = "nil" => r.ver = ar[1].ver)
      [] cl.op = "Delete"           -> r.err = ar[1].err
      [] cl.op = "Get"              -> /\ r.err = ar[1].err
                                       /\ r.err = "nil" => /\ r.rec.ver = ar[1].rec.ver
                                                           /\ r.rec.val = ar[1].rec.val /\ r.rec.exp = ar[1].rec.exp
      [] cl.op = "GetMany"          -> /\ Len(r.recs) = Len(ar[1].recs)
                                       /\ \A j \in 1 .. Len(r.recs) :
                                            IF ar[1].recs[j] = NoRec THEN r.recs[j] = NoRec
                                            ELSE /\ r.recs[j] # NoRec /\ r.recs[j].ver = ar[1].recs[j].ver
                                                 /\ r.recs[j].val = ar[1].recs[j].val
      [] cl.op = "PutMany"          -> r.err = "nil"

LinOK == \A c \in Clients : pc[c] = "ret" =>
            /\ alin[c] = NParts(call[c])                 \* every part took effect, once, before the call returns
            /\ ReplyEq(call[c], rep[c], arep[c])

\* "of several racing creators exactly one succeeds": a second success needs a Delete in between ...
AtMostOneCreator == \A k \in RKeys :
    nCreateOk[k] <= nDelOk[k] + (IF preloaded /\ k = KeySeq[1] THEN 0 ELSE 1)
\* ... and when nobody deletes and the key was missing, one of those who tried has succeeded by the time all are back
ExactlyOneCreator == ("Delete" \notin Ops /\ \A c \in Clients : pc[c] = "idle" /\ ndone[c] = MaxOps) =>
    \A k \in RKeys : (nCreateTried[k] > 0 /\ nCreateOk[k] = 0) => db[k] # NoRec
\* "a CasByVersion against a given version succeeds at most once"
CasOncePerVer == ~casTwice
\* "every successful write gives the record a version never handed out before"
FreshVersions == ~stale
\* a loser changes nothing / gets a documented outcome: replies are only ever of the documented classes
DocumentedOutcome == \A c \in Clients : pc[c] = "ret" =>
    rep[c].err \in (CASE call[c].op = "Create" -> {"nil", "exist"}
                      [] call[c].op = "Cas" -> {"nil", "conflict", "notexist"}
                      [] call[c].op \in {"Get", "Delete"} -> {"nil", "notexist"}
                      [] OTHER -> {"nil"})

Symm == Permutations(Clients)
=============================================================================
