------------------------------- MODULE WideTrace -------------------------------
(* C03, GetMany with many keys in one call (code -> spec).  A WideGet event lists, *)
(* per requested slot, <<want_present, got_present, want_value, got_value>> (the    *)
(* driver wrote value i under key i with one PutMany and deleted some keys since).  *)
(* Contract of GetMany: the result has one slot per requested key, in the order of  *)
(* the request; a present key yields its record (same key, last written value), an  *)
(* absent key yields nothing - however many keys are asked for at once, however     *)
(* they are ordered, repeated, or mixed with unknown ones.  And of PutMany: every   *)
(* record of the batch is stored, however many there are and wherever in the batch  *)
(* the records with an expiration sit (`batch` records, the first expiration at     *)
(* index `exp_from`; the expirations lie weeks ahead).                               *)
EXTENDS TraceLib
VARIABLE l
Ev == Trace[l]
SlotOK(s) == /\ s[1] = s[2]
             /\ s[1] = 1 => s[3] = s[4]
\* Fresh (C02): n successful writes by many goroutines at once, every returned version compared with every other one:
\* "every successful write gives the record a version never handed out before" - dups counts the versions seen twice.
Init == l = 1
Next == /\ l <= Len(Trace) /\ l' = l + 1
        /\ \/ /\ Ev.op = "WideGet"
              /\ Ev.err = "nil" /\ Ev.len = Ev.n
              /\ \A j \in 1 .. Len(Ev.slots) : SlotOK(Ev.slots[j])
           \/ Ev.op = "Readers"
           \* ManyPatterns: one storage asked for hundreds of distinct ListKeys patterns over an unchanging key set, the early
           \* ones again at the end: ListKeys returns exactly the present keys that match - `wrong` counts the answers that differ
           \/ Ev.op = "ManyPatterns" /\ Ev.wrong = 0
           \/ Ev.op = "Fresh" /\ Ev.dups = 0 /\ Ev.errs = 0
           \* OverDead (C02): a dead record read and overwritten at the same instant: no successful write was lost
           \/ Ev.op = "OverDead" /\ Ev.lost = 0 /\ Ev.errs = 0
Spec == Init /\ [][Next]_l
Accepted == AcceptByDiameter
=============================================================================
