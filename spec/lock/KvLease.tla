-------------------------------- MODULE KvLease --------------------------------
(* The lease-renewal chain of kvlock.go with a discrete clock (property C05).   *)
(* One locker, one record.  A tenure starts with Create (expiration now + TTL)   *)
(* and arms a timer future at TTL/2 that runs supportTimeout(ver):               *)
(*     future := l.future.Load()                        (LoadStep)               *)
(*     r, err := CasByVersion(ver -> new version, exp)  (CasStep, with faults)   *)
(*     err is NotExist/Conflict, or not locked, or a newer tenure: stop           *)
(*     other err (transient): arm a retry for the same ver at TTL/8               *)
(*     ok: arm the next renewal for r.Version at TTL/2                            *)
(*     install the new future by compare-and-swap against the loaded one,         *)
(*     cancel it if that fails                            (ArmStep)               *)
(* Unlock: lckCntr := 0, cancel the current future (UnlockStart), Delete          *)
(* (UnlockDelete).  Every step is a separate action so that TLC explores Unlock   *)
(* (and a new tenure) racing a renewal in flight at every phase.                  *)
(* Time: TTL = 8 ticks.  The timeliness assumption of the property is the         *)
(* enabling condition of Tick: while the process is alive, time does not pass an  *)
(* armed future's due time nor a callback in progress.  Die stops the process.    *)
EXTENDS Integers, FiniteSets

CONSTANTS MaxFaults, MaxTenures, FaultKinds, WithDeath

TTL == 8
Half == 4
Retry == 1
MaxNow == 3 * TTL

VARIABLES now, rec, nextVer, held, alive, tenure,
          futs,      \* armed futures: set of [id, ver, due, ten]  (ten: the tenure number the closure captured)
          nextFut, cur,   \* cur: identity of the future stored in l.future
          cbs,       \* callbacks in progress: set of [id, ver, loaded, stage, newver]
          unlocking, \* TRUE between UnlockStart and UnlockDelete
          faults, replyLost,
          casAfter,  \* per tenure: renewal calls of that tenure that reached the store after its Unlock completed
          casAfterOk,\* ... and one of them succeeded
          dieAt

vars == <<now, rec, nextVer, held, alive, tenure, futs, nextFut, cur, cbs, unlocking, faults, replyLost, casAfter, casAfterOk, dieAt>>
None == [none |-> TRUE]
Live == rec # None /\ now <= rec.exp      \* the store treats an expired record as absent (C06)
\* tenure t is over: its Unlock has completed (or a later tenure exists)
Ended(t) == t < tenure \/ (t = tenure /\ ~held /\ ~unlocking)

Init == /\ now = 0 /\ rec = None /\ nextVer = 1 /\ held = FALSE /\ alive = TRUE /\ tenure = 0
        /\ futs = {} /\ nextFut = 1 /\ cur = 0 /\ cbs = {} /\ unlocking = FALSE
        /\ faults = 0 /\ replyLost = FALSE /\ casAfter = [t \in 1 .. MaxTenures |-> 0] /\ casAfterOk = FALSE /\ dieAt = -1

\* TryLock / Lock succeeded: Create, then l.future.Store(timeout.Call(supportTimeout(ver), TTL/2))
Acquire ==
    /\ alive /\ ~held /\ ~unlocking /\ ~Live /\ tenure < MaxTenures
    /\ rec' = [ver |-> nextVer, exp |-> now + TTL] /\ nextVer' = nextVer + 1
    /\ futs' = futs \cup {[id |-> nextFut, ver |-> nextVer, due |-> now + Half, ten |-> tenure + 1]}
    /\ cur' = nextFut /\ nextFut' = nextFut + 1
    /\ held' = TRUE /\ tenure' = tenure + 1
    /\ UNCHANGED <<now, alive, cbs, unlocking, faults, replyLost, dieAt, casAfter, casAfterOk>>

\* the timer fires: the callback starts (it has not read l.future yet)
Fire(f) ==
    /\ alive /\ f \in futs /\ now >= f.due
    /\ futs' = futs \ {f}
    /\ cbs' = cbs \cup {[id |-> f.id, ver |-> f.ver, ten |-> f.ten, loaded |-> -1, stage |-> "new", newver |-> 0]}
    /\ UNCHANGED <<now, rec, nextVer, held, alive, tenure, nextFut, cur, unlocking, faults, replyLost, casAfter, casAfterOk, dieAt>>

LoadStep(cb) ==
    /\ alive /\ cb \in cbs /\ cb.stage = "new"
    /\ cbs' = (cbs \ {cb}) \cup {[cb EXCEPT !.loaded = cur, !.stage = "loaded"]}
    /\ UNCHANGED <<now, rec, nextVer, held, alive, tenure, futs, nextFut, cur, unlocking, faults, replyLost, casAfter, casAfterOk, dieAt>>

CasStep(cb, f) ==
    /\ alive /\ cb \in cbs /\ cb.stage = "loaded"
    /\ f = "none" \/ (f \in FaultKinds /\ faults < MaxFaults)
    /\ faults' = IF f = "none" THEN faults ELSE faults + 1
    /\ replyLost' = (replyLost \/ f = "replylost")
    /\ LET reaches == f # "lost"
           matches == reaches /\ Live /\ rec.ver = cb.ver
           after == reaches /\ Ended(cb.ten)
       IN /\ rec' = IF matches THEN [ver |-> nextVer, exp |-> now + TTL] ELSE rec
          /\ nextVer' = IF matches THEN nextVer + 1 ELSE nextVer
          /\ casAfter' = IF after THEN [casAfter EXCEPT ![cb.ten] = @ + 1] ELSE casAfter
          /\ casAfterOk' = (casAfterOk \/ (after /\ matches))
          /\ cbs' = (cbs \ {cb}) \cup
                    {[cb EXCEPT !.stage = IF f # "none" THEN "terr" ELSE IF matches THEN "ok" ELSE "gone",
                                !.newver = IF matches THEN nextVer ELSE 0]}
    /\ UNCHANGED <<now, held, alive, tenure, futs, nextFut, cur, unlocking, dieAt>>

\* what the callback does with the CAS result
ArmStep(cb) ==
    /\ alive /\ cb \in cbs /\ cb.stage \in {"ok", "gone", "terr"}
    /\ cbs' = cbs \ {cb}
    /\ IF cb.stage = "ok" \/ (cb.stage = "terr" /\ held /\ cb.ten = tenure)
       THEN LET g == [id |-> nextFut, ten |-> cb.ten,
                      ver |-> IF cb.stage = "ok" THEN cb.newver ELSE cb.ver,
                      due |-> now + (IF cb.stage = "ok" THEN Half ELSE Retry)]
            IN /\ nextFut' = nextFut + 1
               /\ IF cur = cb.loaded
                  THEN cur' = g.id /\ futs' = futs \cup {g}       \* CompareAndSwap succeeded
                  ELSE cur' = cur /\ futs' = futs                  \* lost to a new tenure: newFuture.Cancel()
       ELSE UNCHANGED <<nextFut, cur, futs>>
    /\ UNCHANGED <<now, rec, nextVer, held, alive, tenure, unlocking, faults, replyLost, casAfter, casAfterOk, dieAt>>

UnlockStart ==
    /\ alive /\ held
    /\ held' = FALSE /\ unlocking' = TRUE
    /\ futs' = {f \in futs : f.id # cur}           \* future.Cancel(): no effect if it already fired
    /\ UNCHANGED <<now, rec, nextVer, alive, tenure, nextFut, cur, cbs, faults, replyLost, casAfter, casAfterOk, dieAt>>

UnlockDelete ==
    /\ alive /\ unlocking
    /\ rec' = None /\ unlocking' = FALSE
    /\ UNCHANGED <<now, nextVer, held, alive, tenure, futs, nextFut, cur, cbs, faults, replyLost, dieAt, casAfter, casAfterOk>>

Die == /\ WithDeath /\ alive /\ held
       /\ alive' = FALSE /\ dieAt' = now
       /\ UNCHANGED <<now, rec, nextVer, held, tenure, futs, nextFut, cur, cbs, unlocking, faults, replyLost, casAfter, casAfterOk>>

Tick == /\ now < MaxNow
        /\ alive => (/\ \A f \in futs : now < f.due
                     /\ cbs = {} /\ ~unlocking)
        /\ now' = now + 1
        /\ UNCHANGED <<rec, nextVer, held, alive, tenure, futs, nextFut, cur, cbs, unlocking, faults, replyLost, casAfter, casAfterOk, dieAt>>

Next == \/ Acquire \/ UnlockStart \/ UnlockDelete \/ Die \/ Tick
        \/ \E f \in futs : Fire(f)
        \/ \E cb \in cbs : LoadStep(cb) \/ ArmStep(cb) \/ \E f \in {"none"} \cup FaultKinds : CasStep(cb, f)

Spec == Init /\ [][Next]_vars

\* ---------------------------------------------------------------- properties (C05)
\* while held by a live holder whose storage answers (lost requests included), the record never expires
NeverExpiresWhileHeld == (held /\ alive /\ ~replyLost) => Live
\* without the exemption: violated by a reply-lost renewal (known finding F-C05-reply-lost)
NeverExpiresStrict == (held /\ alive) => Live
\* a dead holder's record lapses within one lease of its death
DeadRecordGone == ~alive => (rec = None \/ rec.exp <= dieAt + TTL)
\* once Unlock has completed, renewal for that tenure dies out: what is still armed or running, plus what
\* already reached the store, is at most one call, and it changed nothing
\* renewal calls of tenure t that may still reach the store: armed futures and callbacks that have not issued their CAS yet
Pending(t) == Cardinality({f \in futs : f.ten = t}) + Cardinality({cb \in cbs : cb.ten = t /\ cb.stage \in {"new", "loaded"}})
RenewalDiesOut == alive => /\ \A t \in 1 .. tenure : Ended(t) => Pending(t) + casAfter[t] <= 1
                           /\ ~casAfterOk
TypeOK == /\ now \in 0 .. MaxNow /\ faults \in 0 .. MaxFaults
          /\ \A f \in futs : f.due <= now + Half
View == vars
=============================================================================
