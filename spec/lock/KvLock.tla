-------------------------------- MODULE KvLock --------------------------------
(* The distributed-lock protocol of kvs/distlock/kvlock.go, at the granularity *)
(* the properties C01/C04 name: every storage call (Create, Delete,            *)
(* WaitForVersionChange) is one atomic step that the environment schedules     *)
(* ("gate"), possibly with a fault; the steps between storage calls that race   *)
(* with other goroutines (taking the local token, noticing cancellation or      *)
(* shutdown, returning from the storage wait) are separate internal actions.    *)
(*                                                                              *)
(* Per Locker object l:  tok[l]   the token in lockCh (capacity-1 channel)      *)
(*                       cntr[l]  lckCntr                                        *)
(* Per caller p (a goroutine using locker LockerOf[p]):  pc[p], kind[p], ...    *)
(* Shared:  rec  the lock record in the storage: None or [ver, owner]           *)
(*          (owner is a ghost: who created it), nextVer (fresh versions, C02),  *)
(*          done[pr] provider shut down.                                         *)
(*                                                                              *)
(* Leases: in this module the lease of a live holder never runs out (the        *)
(* assumption of C01); a record whose creator does not hold the lock (a         *)
(* "reply lost" Create, a lost Delete) does expire: action Expire.  With        *)
(* LateDelete = FALSE a release is assumed to reach the storage within the      *)
(* remaining lease (Expire is disabled while the unlocker's Delete is pending); *)
(* LateDelete = TRUE opens that window - see DESIGN.md, known finding C01.      *)
(*                                                                              *)
(* hist records only the steps the environment commands (start a call, unlock,  *)
(* grant a storage call with/without fault, cancel a context, shut down,        *)
(* expire): each emitted history is a schedule the harness plays on real        *)
(* kvsLock objects over a gated kvs.Storage.                                     *)
EXTENDS Integers, Sequences, FiniteSets, Emit

CONSTANTS Procs, Lockers, Provs,
          LockerOf,      \* Procs -> Lockers
          ProvOf,        \* Lockers -> Provs
          Kinds,         \* subset of {"lock", "try", "ctx"}
          MaxCalls,      \* acquire calls per proc
          MaxFaults,     \* faults per behaviour
          FaultKinds,    \* subset of {"reqlost", "replylost"}
          MaxCancels, WithShutdown,
          LateDelete

VARIABLES pc, kind, cancelled, calls, myver, hold,
          tok, cntr, rec, nextVer, done, faults, cancels, lateCall, hist

None == [none |-> TRUE]
vars == <<pc, kind, cancelled, calls, myver, hold, tok, cntr, rec, nextVer, done, faults, cancels, lateCall, hist>>

L(p) == LockerOf[p]
Pr(p) == ProvOf[LockerOf[p]]
Holders == {p \in Procs : hold[p]}
Cmd(c) == hist' = Append(hist, c)
NoCmd == hist' = hist

Init ==
    /\ pc = [p \in Procs |-> "idle"]
    /\ kind = [p \in Procs |-> "lock"]
    /\ cancelled = [p \in Procs |-> FALSE]
    /\ calls = [p \in Procs |-> 0]
    /\ myver = [p \in Procs |-> 0]
    /\ hold = [p \in Procs |-> FALSE]
    /\ tok = [l \in Lockers |-> TRUE]
    /\ cntr = [l \in Lockers |-> 0]
    /\ rec = None /\ nextVer = 1
    /\ done = [pr \in Provs |-> FALSE]
    /\ faults = 0 /\ cancels = 0
    /\ lateCall = [p \in Procs |-> FALSE]
    /\ hist = <<[op |-> "New", lockerOf |-> LockerOf, provOf |-> ProvOf]>>

\* ---- leaving an acquire call without the lock: lckCntr := 0, token back, return
Release(p, result) ==
    /\ cntr' = [cntr EXCEPT ![L(p)] = 0]
    /\ tok' = [tok EXCEPT ![L(p)] = TRUE]
    /\ pc' = [pc EXCEPT ![p] = "idle"]
    /\ UNCHANGED <<hold>>

\* ---- commanded: start an acquire call -----------------------------------------
Start(p, k) ==
    /\ pc[p] = "idle" /\ ~hold[p] /\ calls[p] < MaxCalls
    /\ kind' = [kind EXCEPT ![p] = k]
    /\ cancelled' = [cancelled EXCEPT ![p] = FALSE]
    /\ calls' = [calls EXCEPT ![p] = @ + 1]
    /\ lateCall' = [lateCall EXCEPT ![p] = done[Pr(p)]]
    /\ pc' = [pc EXCEPT ![p] = IF k = "try" THEN "trytok" ELSE "tokwait"]
    /\ Cmd([op |-> "start", p |-> p, kind |-> k])
    /\ UNCHANGED <<myver, hold, tok, cntr, rec, nextVer, done, faults, cancels>>

\* ---- internal: lockInternal's select ---------------------------------------------
\* the three ready cases race; any ready one may be chosen
TokCtxDone(p) ==      \* case <-ctx.Done()
    /\ pc[p] = "tokwait" /\ cancelled[p]
    /\ pc' = [pc EXCEPT ![p] = "idle"] /\ NoCmd
    /\ UNCHANGED <<kind, cancelled, calls, myver, hold, tok, cntr, rec, nextVer, done, faults, cancels, lateCall>>
TokClosed(p) ==       \* case <-l.dlp.done
    /\ pc[p] \in {"tokwait", "trytok"} /\ done[Pr(p)]
    /\ pc' = [pc EXCEPT ![p] = "idle"] /\ NoCmd
    /\ UNCHANGED <<kind, cancelled, calls, myver, hold, tok, cntr, rec, nextVer, done, faults, cancels, lateCall>>
TakeToken(p) ==       \* case <-l.lockCh
    /\ pc[p] \in {"tokwait", "trytok"} /\ tok[L(p)]
    /\ tok' = [tok EXCEPT ![L(p)] = FALSE]
    /\ IF done[Pr(p)]
       THEN \* shut down: the call fails and (as the code does) the token is not put back
            /\ pc' = [pc EXCEPT ![p] = "idle"] /\ UNCHANGED cntr
       ELSE /\ cntr' = [cntr EXCEPT ![L(p)] = 1]
            /\ pc' = [pc EXCEPT ![p] = IF pc[p] = "trytok" THEN "atCreateT" ELSE "precreate"]
    /\ NoCmd
    /\ UNCHANGED <<kind, cancelled, calls, myver, hold, rec, nextVer, done, faults, cancels, lateCall>>
TryNoToken(p) ==      \* default: of tryLockInternal
    /\ pc[p] = "trytok" /\ ~tok[L(p)]
    /\ pc' = [pc EXCEPT ![p] = "idle"] /\ NoCmd
    /\ UNCHANGED <<kind, cancelled, calls, myver, hold, tok, cntr, rec, nextVer, done, faults, cancels, lateCall>>
\* err := ctx.Err() before (re-)entering the create loop
PreCreate(p) ==
    /\ pc[p] = "precreate"
    /\ IF cancelled[p] THEN Release(p, "ctxerr")
       ELSE pc' = [pc EXCEPT ![p] = "atCreate"] /\ UNCHANGED <<tok, cntr, hold>>
    /\ NoCmd
    /\ UNCHANGED <<kind, cancelled, calls, myver, rec, nextVer, done, faults, cancels, lateCall>>

\* ---- commanded: grant a storage call, possibly with a fault ----------------------
FaultOK(f) == f = "none" \/ (f \in FaultKinds /\ faults < MaxFaults)
CountFault(f) == faults' = IF f = "none" THEN faults ELSE faults + 1

GrantCreate(p, f) ==
    /\ pc[p] \in {"atCreate", "atCreateT"} /\ FaultOK(f) /\ CountFault(f)
    /\ LET try == pc[p] = "atCreateT"
           reaches == f # "reqlost" /\ ~cancelled[p]   \* the store checks the context first
           creates == reaches /\ rec = None
       IN /\ rec' = IF creates THEN [ver |-> nextVer, owner |-> p] ELSE rec
          /\ nextVer' = IF creates THEN nextVer + 1 ELSE nextVer
          /\ IF f = "none" /\ creates
             THEN \* acquired: the renewal is armed, the call returns
                  /\ hold' = [hold EXCEPT ![p] = TRUE]
                  /\ pc' = [pc EXCEPT ![p] = "holding"]
                  /\ UNCHANGED <<tok, cntr, myver>>
             ELSE IF f = "none" /\ ~cancelled[p] /\ ~try
             THEN \* ErrExist: wait for a change of the reported version
                  /\ myver' = [myver EXCEPT ![p] = rec.ver]
                  /\ pc' = [pc EXCEPT ![p] = "atWait"]
                  /\ UNCHANGED <<tok, cntr, hold>>
             ELSE \* any other error (and every failure of TryLock): give up cleanly
                  /\ Release(p, "err") /\ UNCHANGED myver
    /\ Cmd([op |-> "grant", p |-> p, call |-> "Create", fault |-> f])
    /\ UNCHANGED <<kind, cancelled, calls, done, cancels, lateCall>>

\* the caller's context ends WHILE its Create is in the store (past the store's own look at the context): the request is
\* served like any other; a caller whose record was created holds the lock - the library does not look at the context again
\* before it returns - and every other outcome finds the context done at its next step
GrantCreateMid(p) ==
    /\ pc[p] \in {"atCreate", "atCreateT"} /\ "midcancel" \in FaultKinds
    /\ kind[p] \in {"ctx", "try"} /\ ~cancelled[p] /\ cancels < MaxCancels
    /\ cancelled' = [cancelled EXCEPT ![p] = TRUE] /\ cancels' = cancels + 1
    /\ LET try == pc[p] = "atCreateT"
           creates == rec = None
       IN /\ rec' = IF creates THEN [ver |-> nextVer, owner |-> p] ELSE rec
          /\ nextVer' = IF creates THEN nextVer + 1 ELSE nextVer
          /\ IF creates
             THEN /\ hold' = [hold EXCEPT ![p] = TRUE]
                  /\ pc' = [pc EXCEPT ![p] = "holding"]
                  /\ UNCHANGED <<tok, cntr, myver>>
             ELSE IF ~try
             THEN /\ myver' = [myver EXCEPT ![p] = rec.ver]
                  /\ pc' = [pc EXCEPT ![p] = "atWait"]
                  /\ UNCHANGED <<tok, cntr, hold>>
             ELSE /\ Release(p, "err") /\ UNCHANGED myver
    /\ Cmd([op |-> "grant", p |-> p, call |-> "Create", fault |-> "midcancel"])
    /\ UNCHANGED <<kind, calls, done, faults, lateCall>>

GrantWait(p, f) ==
    /\ pc[p] = "atWait" /\ FaultOK(f) /\ CountFault(f)
    /\ pc' = [pc EXCEPT ![p] = IF f = "none" THEN "inWait" ELSE "precreate"]   \* an error from the wait is ignored
    /\ Cmd([op |-> "grant", p |-> p, call |-> "Wait", fault |-> f])
    /\ UNCHANGED <<kind, cancelled, calls, myver, hold, tok, cntr, rec, nextVer, done, cancels, lateCall>>

\* internal: the storage wait returns (record gone, version changed, or context done)
WaitReturn(p) ==
    /\ pc[p] = "inWait"
    /\ IF rec = None THEN TRUE ELSE (rec.ver # myver[p] \/ cancelled[p])
    /\ pc' = [pc EXCEPT ![p] = "precreate"] /\ NoCmd
    /\ UNCHANGED <<kind, cancelled, calls, myver, hold, tok, cntr, rec, nextVer, done, faults, cancels, lateCall>>

\* ---- commanded: Unlock ------------------------------------------------------------
Unlock(p) ==
    /\ hold[p] /\ pc[p] = "holding"
    /\ hold' = [hold EXCEPT ![p] = FALSE]
    /\ cntr' = [cntr EXCEPT ![L(p)] = 0]
    /\ pc' = [pc EXCEPT ![p] = "atDelete"]
    /\ Cmd([op |-> "unlock", p |-> p])
    /\ UNCHANGED <<kind, cancelled, calls, myver, tok, rec, nextVer, done, faults, cancels, lateCall>>

GrantDelete(p, f) ==
    /\ pc[p] = "atDelete" /\ FaultOK(f) /\ CountFault(f)
    /\ rec' = IF f = "reqlost" THEN rec ELSE None       \* unconditional Delete by key
    /\ tok' = [tok EXCEPT ![L(p)] = TRUE]
    /\ pc' = [pc EXCEPT ![p] = "idle"]
    /\ Cmd([op |-> "grant", p |-> p, call |-> "Delete", fault |-> f])
    /\ UNCHANGED <<kind, cancelled, calls, myver, hold, cntr, nextVer, done, cancels, lateCall>>

\* ---- commanded: environment --------------------------------------------------------
Cancel(p) ==
    \* (TryLock takes a context too: it is handed to the store's Create, which refuses a context that is done)
    /\ kind[p] \in {"ctx", "try"} /\ pc[p] \notin {"idle", "holding", "atDelete"} /\ ~cancelled[p]
    /\ cancels < MaxCancels
    /\ cancelled' = [cancelled EXCEPT ![p] = TRUE] /\ cancels' = cancels + 1
    /\ Cmd([op |-> "cancel", p |-> p])
    /\ UNCHANGED <<pc, kind, calls, myver, hold, tok, cntr, rec, nextVer, done, faults, lateCall>>

Shutdown(pr) ==
    /\ WithShutdown /\ ~done[pr]
    /\ done' = [done EXCEPT ![pr] = TRUE]
    /\ Cmd([op |-> "shutdown", prov |-> pr])
    /\ UNCHANGED <<pc, kind, cancelled, calls, myver, hold, tok, cntr, rec, nextVer, faults, cancels, lateCall>>

\* the lease of a record nobody renews runs out
Expire ==
    /\ rec # None /\ ~hold[rec.owner]
    /\ LateDelete \/ pc[rec.owner] # "atDelete"
    /\ rec' = None
    /\ Cmd([op |-> "expire"])
    /\ UNCHANGED <<pc, kind, cancelled, calls, myver, hold, tok, cntr, nextVer, done, faults, cancels, lateCall>>

Internal(p) == TokCtxDone(p) \/ TokClosed(p) \/ TakeToken(p) \/ TryNoToken(p) \/ PreCreate(p) \/ WaitReturn(p)
Faults == {"none"} \cup (FaultKinds \ {"midcancel"})
Next == \/ \E p \in Procs : Internal(p)
        \/ \E p \in Procs, k \in Kinds : Start(p, k)
        \/ \E p \in Procs, f \in Faults : GrantCreate(p, f) \/ GrantWait(p, f) \/ GrantDelete(p, f)
        \/ \E p \in Procs : GrantCreateMid(p)
        \/ \E p \in Procs : Unlock(p) \/ Cancel(p)
        \/ \E pr \in Provs : Shutdown(pr)
        \/ Expire

Spec == Init /\ [][Next]_vars
\* fairness for the liveness check: every protocol step and every grant eventually happens,
\* holders eventually unlock; starting calls, faults, cancels and shutdown are NOT fair
FairSpec == Spec /\ \A p \in Procs : /\ WF_vars(Internal(p))
                                     /\ WF_vars(GrantCreate(p, "none") \/ GrantWait(p, "none") \/ GrantDelete(p, "none"))
                                     /\ WF_vars(Unlock(p))
                 /\ WF_vars(Expire)

\* ---------------------------------------------------------------- properties
\* C01: at most one holder
MutualExclusion == Cardinality(Holders) <= 1
\* the holder's record is in the storage (what mutual exclusion rests on)
RecordOfHolder == \A p \in Procs : hold[p] => (rec # None /\ rec.owner = p)
\* the local counter is 1 exactly between taking the token and release/unlock
CounterOK == \A l \in Lockers :
               cntr[l] = 1 <=> \E p \in Procs : L(p) = l /\ pc[p] \in {"precreate", "atCreate", "atCreateT", "atWait", "inWait", "holding"}
\* the token is out exactly while somebody of this locker is past TakeToken (or it was dropped at shutdown)
TokenOK == \A l \in Lockers :
               tok[l] \/ done[ProvOf[l]] \/ \E p \in Procs : L(p) = l /\ pc[p] \in {"precreate", "atCreate", "atCreateT", "atWait", "inWait", "holding", "atDelete"}
\* C04 residue: when every call has returned and nobody holds, nothing is left behind
Quiescent == \A p \in Procs : pc[p] = "idle"
NoResidue == Quiescent =>
               /\ \A l \in Lockers : cntr[l] = 0 /\ (tok[l] \/ done[ProvOf[l]])
               /\ (rec # None => faults > 0)       \* only a lost reply/request can leave a record; it then expires
\* C04: a call invoked after Shutdown never acquires
NoLateAcquire == \A p \in Procs : hold[p] => ~lateCall[p]
\* C04 no lost wake-up, as a state predicate: if somebody is inside a blocking acquire while nobody
\* holds, no record exists and no storage call is pending, then some internal step is enabled
Pending(p) == pc[p] \in {"atCreate", "atCreateT", "atWait", "atDelete"}
Blocked(p) == pc[p] \in {"tokwait", "inWait"}
NoLostWakeup ==
    (/\ \E p \in Procs : Blocked(p)
     /\ Holders = {} /\ rec = None
     /\ \A p \in Procs : ~Pending(p) /\ pc[p] \notin {"precreate", "trytok"})
    => \E p \in Procs : ENABLED Internal(p)
\* liveness (FairSpec): a blocked caller eventually holds, or leaves because of cancellation/shutdown/fault
Progress == \A p \in Procs : (pc[p] \in {"tokwait", "inWait", "atWait", "atCreate"}) ~> (pc[p] \in {"holding", "idle"})

View == <<pc, kind, cancelled, calls, myver, hold, tok, cntr, rec, nextVer, done, faults, cancels, lateCall>>
Emit == IF hist' = hist THEN TRUE ELSE EmitHist(hist')
=============================================================================
