------------------------------- MODULE KvLockMC -------------------------------
(* Model-checking instances of KvLock (cfg files cannot hold function literals) *)
EXTENDS KvLock
\* two callers, each with its own locker, two providers
TwoLockers == [p \in {1, 2} |-> p]
TwoProvs   == [l \in {1, 2} |-> l]
\* two callers sharing one locker object
SharedLocker == [p \in {1, 2} |-> 1]
OneProv      == [l \in {1, 2} |-> 1]
\* three callers: 1 and 2 share locker 1, caller 3 has locker 2 of another provider
ThreeMixed == [p \in {1, 2, 3} |-> IF p = 3 THEN 2 ELSE 1]
=============================================================================
