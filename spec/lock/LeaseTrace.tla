------------------------------ MODULE LeaseTrace ------------------------------
(* Timed contract of the lock lease (property C05) as a trace spec over events  *)
(* recorded from the REAL lock in real time; every event carries t, the         *)
(* harness's monotonic clock in microseconds since the scenario started.        *)
(* Caller 1 is the holder under observation, caller 2 a contender polling       *)
(* TryLock, caller 3 a waiter blocked in LockWithCtx.                            *)
(*   reset(ttl, kind)   acq(p)   rel(p) (before Unlock)   unlocked(p)           *)
(*   create(p, res, exp)  cas(p, res, exp, n)  del(p, res)   storage calls as    *)
(*        the facade saw them; exp = expiration written, res = ok / conflict /   *)
(*        notexist / lost (request lost, injected) / replylost (applied, error   *)
(*        returned, injected) / dead (caller is dead: nothing reaches the store) *)
(*   probe(present)  the harness read the record from the store                  *)
(*   try(p, ok)      contender's TryLock     wacq(p) / wfail(p)  waiter's result *)
(*   die(p)          the holder dies: stops renewing, never unlocks              *)
(*                                                                               *)
(* (a) while held by a live holder whose storage answers (request-lost renewals  *)
(*     included) the record never expires: every renewal of the holder finds its *)
(*     record (never notexist/conflict), every probe finds it, nobody else       *)
(*     acquires;                                                                  *)
(* (b) after the holder died the record is gone within a lease (+ Slack) and the *)
(*     waiter acquires by then;                                                   *)
(* (c) after Unlock returned at most one renewal call of that tenure reaches the *)
(*     store, it fails, and nothing follows it.                                   *)
(* A renewal whose REPLY is lost cannot be recovered by the protocol (the holder *)
(* never learns the new version): such a history is rejected like any other and  *)
(* classified by the checker as the recorded known finding (DESIGN.md).           *)
(* (d) (property C04, enforced when CheckGone): once the observed holder's Unlock *)
(*     has returned the lock record is gone - every probe of the store finds it   *)
(*     absent until somebody creates it again.  Probes and creations are logged   *)
(*     under the facade's lock, in the order they reached the store.              *)
EXTENDS TraceLib

CONSTANT Slack,     \* microseconds of tolerance on "by then" bounds (generous, one-sided)
         CheckGone  \* enforce (d)

VARIABLES held, holder, alive, exp, cexp, replyLost, unlockedAt, casAfter, wacq, kind, ttl, created, stale, l

Ev == Trace[l]
vars == <<held, holder, alive, exp, cexp, replyLost, unlockedAt, casAfter, wacq, kind, ttl, created, stale, l>>
Same(v) == UNCHANGED v

Init == /\ held = FALSE /\ holder = 1 /\ alive = TRUE /\ exp = 0 /\ cexp = 0 /\ replyLost = FALSE
        /\ unlockedAt = -1 /\ casAfter = 0 /\ wacq = FALSE /\ kind = "" /\ ttl = 0 /\ created = FALSE /\ stale = 0 /\ l = 1

\* (a) applies.  It is enforced after a reply-lost renewal too: the checker then classifies the
\* rejection by the replylost event in the history (known finding) instead of exempting it here.
Protected == held /\ alive

Reset == /\ Ev.e = "reset"
         /\ held' = FALSE /\ holder' = 1 /\ alive' = TRUE /\ exp' = 0 /\ cexp' = 0 /\ replyLost' = FALSE
         /\ unlockedAt' = -1 /\ casAfter' = 0 /\ wacq' = FALSE /\ kind' = Ev.kind /\ ttl' = Ev.ttl /\ created' = FALSE /\ stale' = 0

\* the caller under observation: caller 1 first; in the death scenario the waiter (caller 3) once it has
\* acquired - it waited long for the lock, and its own lease must be in order from then on
Acq == /\ Ev.e = "acq"
       /\ held' = TRUE /\ holder' = Ev.p /\ alive' = TRUE /\ unlockedAt' = -1 /\ casAfter' = 0
       \* the same caller acquires again through the same Locker: the one renewal attempt of its FINISHED tenure that (c)
       \* allows may still be armed - it will fail (the record it knew is gone) and must change nothing
       /\ stale' = IF Ev.p = holder /\ unlockedAt >= 0 /\ casAfter = 0 THEN 1 ELSE 0
       /\ exp' = IF Ev.p = holder THEN exp ELSE cexp      \* a new holder: the expiration its own Create wrote
       /\ Same(<<cexp, replyLost, wacq, kind, ttl, created>>)

Create == /\ Ev.e = "create"
          /\ IF Ev.p = holder
             THEN exp' = (IF Ev.res = "ok" THEN Ev.exp ELSE exp) /\ cexp' = cexp
             ELSE /\ Protected => Ev.res # "ok"          \* nobody else creates the record while it is held
                  /\ exp' = exp /\ cexp' = IF Ev.res = "ok" THEN Ev.exp ELSE cexp
          /\ created' = (created \/ Ev.res = "ok")
          /\ Same(<<held, holder, alive, replyLost, unlockedAt, casAfter, wacq, kind, ttl, stale>>)

Cas == /\ Ev.e = "cas" /\ Ev.p = holder
       /\ IF Ev.res = "dead" THEN Same(<<exp, replyLost, casAfter, stale>>)
          ELSE IF held /\ stale = 1 /\ Ev.res \in {"conflict", "notexist"}
          THEN \* the one attempt of this caller's finished tenure: it found nothing of its own and changed nothing
               /\ stale' = 0 /\ Same(<<exp, replyLost, casAfter>>)
          ELSE IF held
          THEN /\ Protected => Ev.res \in {"ok", "lost", "replylost"}      \* (a): the holder's record is there
               /\ exp' = IF Ev.res \in {"ok", "replylost"} THEN Ev.exp ELSE exp
               /\ replyLost' = (replyLost \/ Ev.res = "replylost")
               /\ casAfter' = casAfter /\ stale' = stale
          ELSE IF unlockedAt >= 0
          THEN /\ casAfter = 0                                            \* (c): at most one ...
               /\ Ev.res \in {"conflict", "notexist"}                      \* ... and it changes nothing
               /\ casAfter' = 1 /\ Same(<<exp, replyLost, stale>>)
          ELSE \* between rel and unlocked: a renewal in flight may still succeed or fail
               Same(<<exp, replyLost, casAfter, stale>>)
       /\ Same(<<held, holder, alive, cexp, unlockedAt, wacq, kind, ttl, created>>)

\* renewal calls of a caller that is not (any more) the one under observation (a dead process's calls never
\* reach the store; a party that acquired but is not observed as holder renews its own record)
CasOther == /\ Ev.e = "cas" /\ Ev.p # holder
            /\ Same(<<held, holder, alive, exp, cexp, replyLost, unlockedAt, casAfter, wacq, kind, ttl, created, stale>>)

Del == /\ Ev.e = "del" /\ Same(<<held, holder, alive, exp, cexp, replyLost, unlockedAt, casAfter, wacq, kind, ttl, created, stale>>)

Probe == /\ Ev.e = "probe"
         /\ Protected => Ev.present                                                   \* (a)
         /\ (~alive /\ ~wacq /\ Ev.t > exp + Slack) => ~Ev.present                     \* (b)
         /\ (CheckGone /\ ~held /\ unlockedAt >= 0 /\ ~created) => ~Ev.present         \* (d)
         /\ Same(<<held, holder, alive, exp, cexp, replyLost, unlockedAt, casAfter, wacq, kind, ttl, created, stale>>)

Try == /\ Ev.e = "try"
       /\ Protected => ~Ev.ok                                                          \* (a)
       /\ Same(<<held, holder, alive, exp, cexp, replyLost, unlockedAt, casAfter, wacq, kind, ttl, created, stale>>)

Rel == /\ Ev.e = "rel"
       /\ held' = IF Ev.p = holder THEN FALSE ELSE held
       \* (d) counts creations from here on: until the holder's Delete reaches the store nobody else can create
       /\ created' = IF Ev.p = holder THEN FALSE ELSE created
       /\ Same(<<holder, alive, exp, cexp, replyLost, unlockedAt, casAfter, wacq, kind, ttl, stale>>)

Unlocked == /\ Ev.e = "unlocked"
            /\ unlockedAt' = IF Ev.p = holder THEN Ev.t ELSE unlockedAt
            /\ Same(<<held, holder, alive, exp, cexp, replyLost, casAfter, wacq, kind, ttl, created, stale>>)

Die == /\ Ev.e = "die" /\ alive' = FALSE
       /\ Same(<<held, holder, exp, cexp, replyLost, unlockedAt, casAfter, wacq, kind, ttl, created, stale>>)

WAcq == /\ Ev.e = "wacq"
        /\ ~Protected                                   \* (a): not while a live holder holds
        /\ ~alive => Ev.t <= exp + Slack                \* (b): promptly after the lease ran out
        /\ wacq' = TRUE
        /\ Same(<<held, holder, alive, exp, cexp, replyLost, unlockedAt, casAfter, kind, ttl, created, stale>>)

\* after everything was released the lock is free: the contender's TryLock succeeds (no record was left behind
\* or kept alive by a renewal of a finished tenure).  A failed re-acquisition through the released Locker
\* (reacqfail) is never consumable.
FreeTry == /\ Ev.e = "freetry" /\ Ev.ok
           /\ Same(<<held, holder, alive, exp, cexp, replyLost, unlockedAt, casAfter, wacq, kind, ttl, created, stale>>)

\* the waiter giving up after the holder died is (b) violated: never consumable
End == /\ Ev.e = "end"
       /\ (kind = "death") => wacq
       /\ Same(<<held, holder, alive, exp, cexp, replyLost, unlockedAt, casAfter, wacq, kind, ttl, created, stale>>)

Next == /\ l <= Len(Trace) /\ l' = l + 1
        /\ \/ Reset \/ Acq \/ Create \/ Cas \/ CasOther \/ Del \/ Probe \/ Try \/ FreeTry \/ Rel \/ Unlocked \/ Die \/ WAcq \/ End

Spec == Init /\ [][Next]_vars
Accepted == AcceptByDiameter
=============================================================================
