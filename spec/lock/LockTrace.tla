------------------------------ MODULE LockTrace ------------------------------
(* Contract of the distributed lock (properties C01 and C04) as a trace spec   *)
(* over the events the harness records from the REAL kvsLock objects, in the    *)
(* order they really happened:                                                   *)
(*   reset(lockerOf, provOf)   a fresh system (many histories are concatenated) *)
(*   call(p, kind, late)       Lock / TryLock / LockWithCtx invoked (late: its   *)
(*                             provider had already been shut down)              *)
(*   ret(p, res)               the call returned - logged AFTER it returned      *)
(*   unlock(p)                 logged BEFORE Unlock is invoked, so a logged      *)
(*                             holding interval lies inside the real one and an   *)
(*                             overlap in the log is a real overlap               *)
(*   unlocked(p, panic)  cancel(p, acq)  shutdown(prov)  fault(p, call, kind)    *)
(*   expire        the harness let the lease of an unowned record run out        *)
(*   lateexpire    directed scenario: the lease ran out while the unlocker's      *)
(*                 Delete was still in flight (outside the assumption, DESIGN.md) *)
(*   stuck(ps)     callers stayed blocked although nothing was held or pending   *)
(*   quiesce(rec, probes)  all calls returned: is the record still there, and    *)
(*                 can every locker of a live provider be acquired again          *)
(*                                                                               *)
(* C01  MutualExclusion: ret(p, ok) only while nobody holds.                     *)
(* C04  everything else: a cancelled LockWithCtx returns the context's error, a  *)
(*      failed TryLock returns false, nothing is left behind, no lost wake-up,    *)
(*      no acquisition by a call invoked after Shutdown.                          *)
(* CheckMutex / CheckResidue select which family is enforced (the other one is   *)
(* still tracked so that the rest of the trace is checked).                      *)
EXTENDS TraceLib, FiniteSets

CONSTANTS CheckMutex, CheckResidue

VARIABLES holders, call, down, faults, topo, l

Procs == 1 .. 8
NoCall == [none |-> TRUE]
Ev == Trace[l]

Init == /\ holders = {} /\ call = [p \in Procs |-> NoCall]
        /\ down = {} /\ faults = 0 /\ topo = [lockerOf |-> <<>>, provOf |-> <<>>] /\ l = 1

ProvOfProc(p) == topo.provOf[topo.lockerOf[p]]
Step == l' = l + 1

Reset == /\ Ev.e = "reset"
         /\ holders' = {} /\ call' = [p \in Procs |-> NoCall] /\ down' = {} /\ faults' = 0
         /\ topo' = [lockerOf |-> Ev.lockerOf, provOf |-> Ev.provOf]

Call == /\ Ev.e = "call"
        /\ call[Ev.p] = NoCall /\ Ev.p \notin holders
        /\ call' = [call EXCEPT ![Ev.p] = [kind |-> Ev.kind, late |-> Ev.late, cancelled |-> FALSE, mustFail |-> FALSE]]
        /\ UNCHANGED <<holders, down, faults, topo>>

Cancel == /\ Ev.e = "cancel"
          /\ call[Ev.p] # NoCall
          \* acq: the caller's storage Create had already succeeded when the context ended
          /\ call' = [call EXCEPT ![Ev.p].cancelled = TRUE, ![Ev.p].mustFail = @ \/ ~Ev.acq]
          /\ UNCHANGED <<holders, down, faults, topo>>

RetOK(p, c) ==
    /\ CheckMutex => holders = {}                       \* C01
    /\ CheckResidue => (~c.late /\ ~c.mustFail)          \* C04: after Shutdown / after the context ended
RetAllowed(p, c, res) ==
    CASE res = "ok"     -> RetOK(p, c)
      [] res = "false"  -> CheckResidue => c.kind = "try"
      [] res = "ctxerr" -> CheckResidue => (c.kind = "ctx" /\ c.cancelled)
      [] res = "closed" -> CheckResidue => (c.kind = "ctx" /\ ProvOfProc(p) \in down)
      [] res = "err"    -> CheckResidue => (c.kind = "ctx" /\ faults > 0)
      [] res = "panic"  -> CheckResidue => (c.kind = "lock" /\ (faults > 0 \/ ProvOfProc(p) \in down))
      [] OTHER          -> ~CheckResidue

Ret == /\ Ev.e = "ret"
       /\ call[Ev.p] # NoCall
       /\ RetAllowed(Ev.p, call[Ev.p], Ev.res)
       /\ holders' = IF Ev.res = "ok" THEN holders \cup {Ev.p} ELSE holders
       /\ call' = [call EXCEPT ![Ev.p] = NoCall]
       /\ UNCHANGED <<down, faults, topo>>

Unlock == /\ Ev.e = "unlock" /\ Ev.p \in holders
          /\ holders' = holders \ {Ev.p}
          /\ UNCHANGED <<call, down, faults, topo>>

Unlocked == /\ Ev.e = "unlocked"
            /\ CheckResidue => ~Ev.panic
            /\ UNCHANGED <<holders, call, down, faults, topo>>

Shutdown == /\ Ev.e = "shutdown" /\ down' = down \cup {Ev.prov}
            /\ UNCHANGED <<holders, call, faults, topo>>

Fault == /\ Ev.e = "fault" /\ faults' = faults + 1
         /\ UNCHANGED <<holders, call, down, topo>>

\* a record that nobody owns can exist only after a lost request or reply
Expire == /\ Ev.e = "expire"
          /\ CheckResidue => faults > 0
          /\ UNCHANGED <<holders, call, down, faults, topo>>

LateExpire == /\ Ev.e = "lateexpire"
              /\ UNCHANGED <<holders, call, down, faults, topo>>

\* a stuck event is never allowed when residue is checked: lost wake-up
Stuck == /\ Ev.e = "stuck" /\ ~CheckResidue
         /\ UNCHANGED <<holders, call, down, faults, topo>>

Quiesce == /\ Ev.e = "quiesce"
           /\ CheckResidue => /\ (Ev.rec => faults > 0)
                              /\ \A i \in 1 .. Len(Ev.probes) : Ev.probes[i] \in {"ok", "down"}
           /\ UNCHANGED <<holders, call, down, faults, topo>>

Next == /\ l <= Len(Trace)
        /\ Step
        /\ \/ Reset \/ Call \/ Cancel \/ Ret \/ Unlock \/ Unlocked \/ Shutdown
           \/ Fault \/ Expire \/ LateExpire \/ Stuck \/ Quiesce

Spec == Init /\ [][Next]_<<holders, call, down, faults, topo, l>>
Accepted == AcceptByDiameter
=============================================================================
