-------------------------------- MODULE LRU --------------------------------
(* Contract of container/lru (property C08): Cache, ECache and             *)
(* ExpirableCache behave as a reference LRU of the configured capacity.     *)
(*                                                                          *)
(* Only API-observable values appear here: the arguments and results of     *)
(* NewCache/NewECache/NewExpirableCache, GetOrCreate, Remove and Clear, and *)
(* the arguments of every create- and delete-callback invocation made       *)
(* during a call.                                                           *)
(*                                                                          *)
(* Keys.  Primary keys (what the caller passes, type PK) and inner keys     *)
(* (what the cache indexes by, type K) are integers.  The key mapping is    *)
(* KeyOf(pk) = |pk|: pk = -3 is a second spelling of inner key 3, the way   *)
(* "K3" and "k3" share the inner key "k3" under strings.ToLower.  With      *)
(* positive primary keys only, the mapping is the identity (lru.Cache).     *)
(*                                                                          *)
(* Values are value ids: the create callback of the harness returns a new   *)
(* id for every successful creation, so "the value that was stored for      *)
(* this key" and "the value passed to the delete callback" are exact.       *)
(*                                                                          *)
(* Abstract state of one cache, a record st:                                *)
(*   st.order   sequence of inner keys, least recently used first           *)
(*   st.val     function: resident inner key -> [pk, vid], the primary key  *)
(*              the entry was created with and its value id                 *)
(*                                                                          *)
(* Apply(st, c, call) is the single definition of the contract of Cache and *)
(* ECache; ApplyX(stx, c, call) is the contract of ExpirableCache, defined  *)
(* on top of Apply.  Both are pure operators that use no constant and no    *)
(* variable of this module, so they are reused by LRUImpl (refinement), by  *)
(* LRUTrace (trace validation) and by the concurrent specification (C09).   *)
(* The rest of the module is the sequential state machine that generates    *)
(* the call sequences (spec -> code direction) and states the invariants.   *)
(* To use the operators alone, instantiate the module with dummies for its  *)
(* constants and variables, as LRUTrace.tla does:                           *)
(*   L == INSTANCE LRU WITH Caps <- {}, NK <- 0, Alias <- FALSE, ...        *)
(*   L!Apply([order |-> o, val |-> v], capacity, call)                      *)
EXTENDS Integers, Sequences, FiniteSets, Emit

\* ========================================================================
\*  Part 1 - the contract as pure operators
\* ========================================================================

AbsVal(x)  == IF x < 0 THEN 0 - x ELSE x
KeyOf(pk)  == AbsVal(pk)                   \* the key mapping PK -> K (non-injective)

SeqRange(s)   == {s[i] : i \in DOMAIN s}
Without(s, k) == SelectSeq(s, LAMBDA x : x # k)
Put(f, k, v)  == [x \in (DOMAIN f) \cup {k} |-> IF x = k THEN v ELSE f[x]]
Drop(f, k)    == [x \in (DOMAIN f) \ {k} |-> f[x]]

EmptySt == [order |-> <<>>, val |-> <<>>]

\* The resident entries, least recently used first, as <<[pk, vid], ...>>.
Snap(st) == [i \in 1 .. Len(st.order) |-> st.val[st.order[i]]]
ResidentVids(st) == {st.val[k].vid : k \in DOMAIN st.val}

(* ---- Cache / ECache ---------------------------------------------------- *)
(* call:                                                                    *)
(*   [op |-> "GetOrCreate", pk, fails, vid]   fails: the create callback,   *)
(*        if it is invoked, returns an error; vid: the value id it returns  *)
(*        otherwise (the caller of Apply guarantees that it is fresh)       *)
(*   [op |-> "Remove", pk]        [op |-> "Clear"]                          *)
(* result: [st |-> state after the call, res |-> prescribed reply]          *)
(*   res.err      "nil" or "fail" (the error of the create callback)        *)
(*   res.vid      the value returned (0 with an error: then unspecified)    *)
(*   res.created  primary keys the create callback was invoked with, in     *)
(*                order, during this call                                   *)
(*   res.deleted  [pk, vid] pairs the delete callback was invoked with, in  *)
(*                order, during this call.  For Clear the order in which    *)
(*                the entries are handed to the callback is NOT part of the *)
(*                property; users of res.deleted of a Clear compare sets.   *)
Apply(st, c, call) ==
    CASE call.op = "GetOrCreate" ->
           LET k == KeyOf(call.pk) IN
           IF k \in DOMAIN st.val
           THEN \* hit: no creation, the stored value, the entry becomes most recently used.
                \* The entry keeps the primary key it was created with.
                [st  |-> [order |-> Append(Without(st.order, k), k), val |-> st.val],
                 res |-> [op |-> "GetOrCreate", pk |-> call.pk, err |-> "nil", vid |-> st.val[k].vid,
                          created |-> <<>>, deleted |-> <<>>]]
           ELSE IF call.fails
           THEN \* miss, creation fails: one create call, nothing changes
                [st  |-> st,
                 res |-> [op |-> "GetOrCreate", pk |-> call.pk, err |-> "fail", vid |-> 0,
                          created |-> <<call.pk>>, deleted |-> <<>>]]
           ELSE \* miss, creation succeeds: insert as most recently used; if the capacity is
                \* exceeded, exactly the least recently used entry leaves (delete callback)
                LET o1     == Append(st.order, k)
                    v1     == Put(st.val, k, [pk |-> call.pk, vid |-> call.vid])
                    over   == Len(o1) > c
                    victim == Head(o1)
                IN [st  |-> IF over THEN [order |-> Tail(o1), val |-> Drop(v1, victim)]
                                    ELSE [order |-> o1, val |-> v1],
                    res |-> [op |-> "GetOrCreate", pk |-> call.pk, err |-> "nil", vid |-> call.vid,
                             created |-> <<call.pk>>,
                             deleted |-> IF over THEN <<v1[victim]>> ELSE <<>>]]
      [] call.op = "Remove" ->
           LET k == KeyOf(call.pk) IN
           IF k \in DOMAIN st.val
           THEN [st  |-> [order |-> Without(st.order, k), val |-> Drop(st.val, k)],
                 res |-> [op |-> "Remove", pk |-> call.pk, found |-> TRUE, deleted |-> <<st.val[k]>>]]
           ELSE [st  |-> st,
                 res |-> [op |-> "Remove", pk |-> call.pk, found |-> FALSE, deleted |-> <<>>]]
      [] call.op = "Clear" ->
           [st  |-> EmptySt,
            res |-> [op |-> "Clear", n |-> Len(st.order), deleted |-> Snap(st)]]

\* Number of successful creations in a GetOrCreate reply (only the last creation can fail).
CreatedOk(res) ==
    IF res.op # "GetOrCreate" THEN 0
    ELSE Len(res.created) - (IF res.err = "fail" THEN 1 ELSE 0)

(* ---- ExpirableCache ---------------------------------------------------- *)
(* The wrapper looks at the expiry time of the value GetOrCreate obtained;  *)
(* if it lies in the past the entry is removed (delete callback: "expiry    *)
(* replacement") and GetOrCreate is performed once more, whose result is    *)
(* returned as it is.  No clock is modelled: whether an item is expired is  *)
(* a property of the item, fixed when the create callback makes it.         *)
(* stx = [order, val, stale]; stale = value ids of resident expired items.  *)
(* (A create callback that hands out an already expired item makes the very *)
(* same call insert it, evict for it, remove it and create once more: that  *)
(* is what "remove the stale item and create again" means for such an item.)*)
(* call: [op |-> "GetOrCreate", pk, outs, vid]: outs[i] in {"ok", "stale",  *)
(* "fail"} is what the i-th create invocation of this call does (a fresh    *)
(* item, an already expired item, an error); the successful creations get   *)
(* the ids vid, vid+1.  At most two creations can happen in one call.       *)
Base(stx) == [order |-> stx.order, val |-> stx.val]
WithStale(st, s) == [order |-> st.order, val |-> st.val, stale |-> s \cap ResidentVids(st)]

ApplyX(stx, c, call) ==
    IF call.op # "GetOrCreate"
    THEN LET a == Apply(Base(stx), c, call) IN [st |-> WithStale(a.st, stx.stale), res |-> a.res]
    ELSE
    LET g1  == [op |-> "GetOrCreate", pk |-> call.pk, fails |-> call.outs[1] = "fail", vid |-> call.vid]
        a1  == Apply(Base(stx), c, g1)
        n1  == CreatedOk(a1.res)
        s1  == stx.stale \cup (IF n1 = 1 /\ call.outs[1] = "stale" THEN {call.vid} ELSE {})
    IN IF a1.res.err = "fail" \/ a1.res.vid \notin s1
       THEN \* an error, or a value that is not expired: that is the result
            [st |-> WithStale(a1.st, s1), res |-> a1.res]
       ELSE \* expired: remove it and create again
            LET a2 == Apply(a1.st, c, [op |-> "Remove", pk |-> call.pk])
                v2 == call.vid + n1
                g3 == [op |-> "GetOrCreate", pk |-> call.pk, fails |-> call.outs[n1 + 1] = "fail", vid |-> v2]
                a3 == Apply(a2.st, c, g3)
                s3 == s1 \cup (IF CreatedOk(a3.res) = 1 /\ call.outs[n1 + 1] = "stale" THEN {v2} ELSE {})
            IN [st  |-> WithStale(a3.st, s3),
                res |-> [op |-> "GetOrCreate", pk |-> call.pk, err |-> a3.res.err, vid |-> a3.res.vid,
                         created |-> a1.res.created \o a3.res.created,
                         deleted |-> a1.res.deleted \o a2.res.deleted \o a3.res.deleted]]

\* ========================================================================
\*  Part 2 - the sequential state machine (test generation, invariants)
\* ========================================================================

CONSTANTS Caps,       \* maxSize values the constructor is tried with (0 and -1 are always tried too)
          NK,         \* inner keys are 1 .. NK
          Alias,      \* TRUE: primary keys -1 .. -NK exist too (ECache, non-injective mapping)
          Expirable   \* TRUE: the object is an ExpirableCache

VARIABLES phase,   \* "none" (no constructor call yet), "live", "rejected"
          cap,     \* capacity of the live cache
          order, val, stale,
          next,    \* next value id = 1 + number of successful creations so far
          dead,    \* history: value ids handed to the delete callback so far, in order
          hist     \* history: the calls with their prescribed replies

vars == <<phase, cap, order, val, stale, next, dead, hist>>

BadCaps == {0, 0 - 1}      \* a cfg file cannot hold a negative number
Keys == 1 .. NK
PKs  == Keys \cup (IF Alias THEN {0 - k : k \in Keys} ELSE {})
OutKinds == {"ok", "stale", "fail"}

Calls == (IF Expirable
          THEN {[op |-> "GetOrCreate", pk |-> pk, outs |-> <<o1, o2>>] : pk \in PKs, o1 \in OutKinds, o2 \in OutKinds}
          ELSE {[op |-> "GetOrCreate", pk |-> pk, fails |-> f] : pk \in PKs, f \in BOOLEAN})
         \cup {[op |-> "Remove", pk |-> pk] : pk \in PKs}
         \cup {[op |-> "Clear"]}

StX == [order |-> order, val |-> val, stale |-> stale]

\* The variant's contract operator, with the fresh value id filled in.
App(stx, c, call, vid) ==
    IF Expirable
    THEN ApplyX(stx, c, IF call.op = "GetOrCreate" THEN call @@ [vid |-> vid] ELSE call)
    ELSE LET a == Apply(Base(stx), c, IF call.op = "GetOrCreate" THEN call @@ [vid |-> vid] ELSE call)
         IN [st |-> WithStale(a.st, {}), res |-> a.res]

\* What a history step records: the reply, the inputs that steer the create callback, and
\* the abstract content after the call (used by the replayer's final drain probe, ProbeSound).
StepOf(call, a) ==
    a.res @@ (IF call.op # "GetOrCreate" THEN <<>>
              ELSE IF Expirable THEN [outs |-> call.outs] ELSE [fails |-> call.fails])
          @@ [st |-> Snap(a.st)]

Init == /\ phase = "none" /\ cap = 0
        /\ order = <<>> /\ val = <<>> /\ stale = {}
        /\ next = 1 /\ dead = <<>> /\ hist = <<>>

\* Constructor: maxSize < 1 or a nil create function is rejected with an error.
New(c, nilcreate) ==
    /\ phase = "none"
    /\ LET ok == c >= 1 /\ ~nilcreate IN
       /\ phase' = IF ok THEN "live" ELSE "rejected"
       /\ cap' = IF ok THEN c ELSE 0
       /\ hist' = <<[op |-> "New", cap |-> c, nilcreate |-> nilcreate, alias |-> Alias,
                     expirable |-> Expirable, ok |-> ok]>>
    /\ UNCHANGED <<order, val, stale, next, dead>>

Do(call) ==
    /\ phase = "live"
    /\ LET a == App(StX, cap, call, next) IN
       /\ order' = a.st.order /\ val' = a.st.val /\ stale' = a.st.stale
       /\ next' = next + CreatedOk(a.res)
       /\ dead' = dead \o [i \in 1 .. Len(a.res.deleted) |-> a.res.deleted[i].vid]
       /\ hist' = Append(hist, StepOf(call, a))
    /\ UNCHANGED <<phase, cap>>

Next == \/ \E c \in Caps \cup BadCaps, nilcreate \in BOOLEAN : New(c, nilcreate)
        \/ \E call \in Calls : Do(call)

Spec == Init /\ [][Next]_vars

\* ---- what the property says, as invariants on the contract ------------------

Count(s, x) == Cardinality({i \in DOMAIN s : s[i] = x})

\* never more entries than the capacity; no cache, no entries
Bounded == /\ Len(order) <= cap
           /\ phase # "live" => cap = 0

WellFormed ==
    /\ DOMAIN val = SeqRange(order)
    /\ Cardinality(SeqRange(order)) = Len(order)                     \* no key twice in the order
    /\ \A k \in DOMAIN val : KeyOf(val[k].pk) = k /\ val[k].vid \in 1 .. next - 1
    /\ Cardinality(ResidentVids(StX)) = Len(order)                   \* no value stored twice
    /\ stale \subseteq ResidentVids(StX)
    /\ Expirable \/ stale = {}

\* every value ever created is resident and was never passed to the delete callback,
\* or is not resident and was passed to the delete callback exactly once
Accounting ==
    \A v \in 1 .. next - 1 :
        Count(dead, v) = IF v \in ResidentVids(StX) THEN 0 ELSE 1

\* the same, per step (TLC evaluates this on EVERY transition, also on those leading to
\* states it has already seen, which the VIEW below makes frequent)
StepAccounting ==
    [][LET made == next .. next' - 1
           gone == SeqRange(SubSeq(dead', Len(dead) + 1, Len(dead')))
       IN /\ Len(dead') - Len(dead) = Cardinality(gone)                         \* no id twice in one call
          /\ gone \subseteq ResidentVids(StX) \cup made                         \* only entries that were in
          /\ ResidentVids(StX)' = (ResidentVids(StX) \cup made) \ gone]_vars    \* and exactly those leave

\* The probe the replayer uses to observe the hidden recency order through the API: from
\* any state, inserting cap new keys evicts nothing for the first cap - Len(order)
\* insertions and then exactly the resident entries, least recently used first.
RECURSIVE DrainFrom(_, _, _)
DrainFrom(stx, i, acc) ==
    IF i > cap THEN acc
    ELSE LET call == IF Expirable THEN [op |-> "GetOrCreate", pk |-> NK + i, outs |-> <<"ok", "ok">>]
                                  ELSE [op |-> "GetOrCreate", pk |-> NK + i, fails |-> FALSE]
             a    == App(stx, cap, call, next + i)
         IN DrainFrom(a.st, i + 1, Append(acc, a.res.deleted))
ProbeSound ==
    phase = "live" =>
        LET d   == DrainFrom(StX, 1, <<>>)
            pad == cap - Len(order)
        IN \A i \in 1 .. cap : d[i] = IF i <= pad THEN <<>> ELSE <<val[order[i - pad]]>>

\* Value ids are renamed away: two states that differ only in the ids (and in the history
\* variables) are the same test position.  hist, dead and next are NOT part of the view.
View == <<phase, cap, [i \in 1 .. Len(order) |-> <<order[i], val[order[i]].pk, val[order[i]].vid \in stale>>]>>
Emit == EmitHist(hist')
=============================================================================
