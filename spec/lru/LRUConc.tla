------------------------------- MODULE LRUConc -------------------------------
(* Concurrent use of lru.ECache (property C09), at the granularity of the two  *)
(* critical sections of GetOrCreate in ecache.go:                               *)
(*   CS1 (under the lock): the key is resident -> hit: refresh, return;         *)
(*        a creation for the key is in flight  -> wait for its channel, retry;  *)
(*        otherwise register the in-flight creation and leave the lock;         *)
(*   the create callback runs OUTSIDE the lock (the harness decides when it     *)
(*        completes and whether it fails);                                       *)
(*   CS2 (under the lock): close the channel, unregister; on success insert,    *)
(*        evict the least recently used entry if the capacity is exceeded        *)
(*        (delete callback, still under the lock).                               *)
(* Remove and Clear are single critical sections.                                *)
(* The abstract cache st = [order, val] changes only inside critical sections,   *)
(* by LRU!Apply: each critical section is the linearization point of its call.  *)
(* hist records the steps the environment commands (start a call, complete a    *)
(* creation with ok / fail); everything else is the goroutines running.          *)
EXTENDS Integers, Sequences, FiniteSets, Emit

CONSTANTS Procs, PKeys, Cap, MaxOps, OpKinds

VARIABLES st, inflight, pc, arg, cres, ops, nextVid, created, dead, hist

L == INSTANCE LRU WITH Caps <- {}, NK <- 0, Alias <- FALSE, Expirable <- FALSE,
                       phase <- "none", cap <- 0, order <- <<>>, val <- <<>>, stale <- {},
                       next <- 1, dead <- <<>>, hist <- <<>>

vars == <<st, inflight, pc, arg, cres, ops, nextVid, created, dead, hist>>
K(p) == L!KeyOf(arg[p].pk)
Cmd(c) == hist' = Append(hist, c)
NoCmd == hist' = hist

Init == /\ st = L!EmptySt /\ inflight = {}
        /\ pc = [p \in Procs |-> "idle"] /\ arg = [p \in Procs |-> [op |-> "none", pk |-> 0]]
        /\ cres = [p \in Procs |-> "none"] /\ ops = [p \in Procs |-> 0]
        /\ nextVid = 1 /\ created = {} /\ dead = <<>>
        /\ hist = <<[op |-> "New", cap |-> Cap]>>

Start(p, o, pk) ==
    /\ pc[p] = "idle" /\ ops[p] < MaxOps
    /\ arg' = [arg EXCEPT ![p] = [op |-> o, pk |-> pk]]
    /\ ops' = [ops EXCEPT ![p] = @ + 1]
    /\ pc' = [pc EXCEPT ![p] = IF o = "get" THEN "cs1" ELSE "cs"]
    /\ Cmd([op |-> "start", p |-> p, call |-> o, pk |-> pk])
    /\ UNCHANGED <<st, inflight, cres, nextVid, created, dead>>

Deleted(a) == [i \in 1 .. Len(a.res.deleted) |-> a.res.deleted[i].vid]

\* first critical section of GetOrCreate
CS1(p) ==
    /\ pc[p] = "cs1" /\ NoCmd
    /\ IF K(p) \in DOMAIN st.val
       THEN \* hit: linearization point
            LET a == L!Apply(st, Cap, [op |-> "GetOrCreate", pk |-> arg[p].pk, fails |-> FALSE, vid |-> 0])
            IN st' = a.st /\ pc' = [pc EXCEPT ![p] = "idle"] /\ UNCHANGED inflight
       ELSE IF K(p) \in inflight
       THEN pc' = [pc EXCEPT ![p] = "wait"] /\ UNCHANGED <<st, inflight>>
       ELSE inflight' = inflight \cup {K(p)} /\ pc' = [pc EXCEPT ![p] = "creating"] /\ UNCHANGED st
    /\ UNCHANGED <<arg, cres, ops, nextVid, created, dead>>

\* <-ch returns once the creation the caller waited for has ended; it goes around the loop
Wake(p) ==
    /\ pc[p] = "wait" /\ K(p) \notin inflight /\ NoCmd
    /\ pc' = [pc EXCEPT ![p] = "cs1"]
    /\ UNCHANGED <<st, inflight, arg, cres, ops, nextVid, created, dead>>

\* commanded: the create callback of p returns
FinishCreate(p, r) ==
    /\ pc[p] = "creating"
    /\ cres' = [cres EXCEPT ![p] = r]
    /\ pc' = [pc EXCEPT ![p] = "cs2"]
    /\ Cmd([op |-> "finish", p |-> p, result |-> r])
    /\ UNCHANGED <<st, inflight, arg, ops, nextVid, created, dead>>

\* second critical section: linearization point of a miss
CS2(p) ==
    /\ pc[p] = "cs2" /\ NoCmd
    /\ inflight' = inflight \ {K(p)}
    /\ LET a == L!Apply(st, Cap, [op |-> "GetOrCreate", pk |-> arg[p].pk, fails |-> cres[p] = "fail", vid |-> nextVid])
       IN /\ st' = a.st
          /\ dead' = dead \o Deleted(a)
          /\ IF cres[p] = "ok" THEN nextVid' = nextVid + 1 /\ created' = created \cup {nextVid}
                               ELSE UNCHANGED <<nextVid, created>>
    /\ pc' = [pc EXCEPT ![p] = "idle"]
    /\ UNCHANGED <<arg, cres, ops>>

\* Remove / Clear: one critical section
CS(p) ==
    /\ pc[p] = "cs" /\ NoCmd
    /\ LET a == L!Apply(st, Cap, IF arg[p].op = "remove" THEN [op |-> "Remove", pk |-> arg[p].pk] ELSE [op |-> "Clear"])
       IN st' = a.st /\ dead' = dead \o Deleted(a)
    /\ pc' = [pc EXCEPT ![p] = "idle"]
    /\ UNCHANGED <<inflight, arg, cres, ops, nextVid, created>>

Step(p) == CS1(p) \/ Wake(p) \/ CS2(p) \/ CS(p)
Next == \/ \E p \in Procs : Step(p)
        \/ \E p \in Procs, pk \in PKeys : Start(p, "get", pk) \/ ("remove" \in OpKinds /\ Start(p, "remove", pk))
        \/ \E p \in Procs : "clear" \in OpKinds /\ Start(p, "clear", 0)
        \/ \E p \in Procs, r \in {"ok", "fail"} : FinishCreate(p, r)

Spec == Init /\ [][Next]_vars
FairSpec == Spec /\ \A p \in Procs : WF_vars(Step(p)) /\ WF_vars(FinishCreate(p, "ok") \/ FinishCreate(p, "fail"))

\* ---------------------------------------------------------------- properties (C09)
\* at most one creation per key in progress
SingleFlight == \A p, q \in Procs : (p # q /\ pc[p] \in {"creating", "cs2"} /\ pc[q] \in {"creating", "cs2"}) => K(p) # K(q)
InflightOK == inflight = {K(p) : p \in {q \in Procs : pc[q] \in {"creating", "cs2"}}}
\* a creator always finds its key absent when it inserts (nobody else can have inserted it)
CreatorInsertsFresh == \A p \in Procs : pc[p] = "cs2" => K(p) \notin DOMAIN st.val
\* the number of resident values never exceeds the capacity
Bounded == Len(st.order) <= Cap
\* every successfully created value is resident xor was passed to the delete callback exactly once
Count(s, x) == Cardinality({i \in DOMAIN s : s[i] = x})
Balance == \A v \in created : Count(dead, v) = IF v \in L!ResidentVids(st) THEN 0 ELSE 1
NoForeignDelete == \A i \in DOMAIN dead : dead[i] \in created
\* nobody waits for a creation that is not in flight (no waiter is left behind) ...
NoOrphanWaiter == \A p \in Procs : pc[p] = "wait" => (K(p) \in inflight \/ ENABLED Wake(p))
\* ... and under fairness every waiter is eventually released
WaitersReleased == \A p \in Procs : (pc[p] = "wait") ~> (pc[p] # "wait")

\* key sets for the cfg files (a cfg file cannot hold a negative number): -1 is an alias of key 1
PK3 == {1, 2, 0 - 1}
PK2 == {1, 0 - 1}
View == <<st, inflight, pc, arg, cres, ops>>
Emit == IF hist' = hist THEN TRUE ELSE EmitHist(hist')
=============================================================================
