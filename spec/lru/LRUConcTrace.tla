---------------------------- MODULE LRUConcTrace ----------------------------
(* Linearizability of concurrent lru.ECache histories against the sequential   *)
(* contract LRU!Apply (property C09), decided by TLC on events recorded from    *)
(* the REAL cache, in the order they really happened (one harness mutex):       *)
(*   reset(cap)                                                                  *)
(*   inv(p, op, pk)        call invoked (op: get = GetOrCreate, remove, clear)   *)
(*   cstart(p, pk)         the create callback was entered by caller p           *)
(*   cend(p, ok, vid)      ... and returns value id vid (ok) or an error         *)
(*   del(p, pk, vid)       the delete callback, invoked inside p's critical      *)
(*                         section (the cache calls it under its own lock)       *)
(*   ret(p, ...)           the call returned: err/vid, found, n; len = resident  *)
(*                         values read through the accessor after the return     *)
(*   final                 after the harness's closing Clear                      *)
(* A silent step Lin(p) applies p's pending call to the abstract cache.  A call   *)
(* that invokes the delete callback is linearized exactly at its first del event  *)
(* (that callback runs inside the critical section); every other call anywhere    *)
(* between its inv and ret.  The history is accepted iff all lines are consumed.  *)
(*  - single flight: cstart(k) only while no creation for k is open;              *)
(*  - returned values / found / n equal the linearized call's reply;              *)
(*  - every created value is deleted at most once, never a foreign value, and at  *)
(*    `final` all created values have been deleted (none leaked);                 *)
(*  - resident values never exceed the capacity.                                  *)
EXTENDS TraceLib, FiniteSets

VARIABLES st, cap, pend, creating, made, gone, l

L == INSTANCE LRU WITH Caps <- {}, NK <- 0, Alias <- FALSE, Expirable <- FALSE,
                       phase <- "none", cap <- 0, order <- <<>>, val <- <<>>, stale <- {},
                       next <- 1, dead <- <<>>, hist <- <<>>

Procs == 1 .. 16    \* 9 .. 16: the nested call a create function makes on the same cache
NoOp == [none |-> TRUE]
Ev == Trace[l]
vars == <<st, cap, pend, creating, made, gone, l>>

Init == /\ st = L!EmptySt /\ cap = 0 /\ pend = [p \in Procs |-> NoOp]
        /\ creating = {} /\ made = {} /\ gone = {} /\ l = 1 /\ HighWaterInit

\* the sequential call p's pending operation amounts to, once enough is known
CallOf(o) ==
    CASE o.op = "get"    -> [op |-> "GetOrCreate", pk |-> o.pk, fails |-> o.cstate = "failed", vid |-> o.vid]
      [] o.op = "remove" -> [op |-> "Remove", pk |-> o.pk]
      [] o.op = "clear"  -> [op |-> "Clear"]

\* may p's pending operation be linearized now?
CanLin(o) ==
    /\ o # NoOp /\ ~o.lin
    /\ o.op = "get" =>
          \/ o.cstate = "none" /\ L!KeyOf(o.pk) \in DOMAIN st.val                       \* a hit
          \/ o.cstate \in {"ok", "failed"} /\ L!KeyOf(o.pk) \notin DOMAIN st.val         \* the creator's miss

DelSet(a) == {a.res.deleted[i].vid : i \in 1 .. Len(a.res.deleted)}

\* silent linearization of a call that deletes nothing
Lin(p) ==
    /\ CanLin(pend[p])
    /\ LET a == L!Apply(st, cap, CallOf(pend[p]))
       IN /\ a.res.deleted = <<>>
          /\ st' = a.st
          /\ pend' = [pend EXCEPT ![p].lin = TRUE, ![p].res = a.res, ![p].dels = {}]
    /\ UNCHANGED <<cap, creating, made, gone, l>>

Consume == l <= Len(Trace) /\ l' = l + 1

Reset == /\ Consume /\ Ev.e = "reset"
         /\ st' = L!EmptySt /\ cap' = Ev.cap /\ pend' = [p \in Procs |-> NoOp]
         /\ creating' = {} /\ made' = {} /\ gone' = {}

Inv == /\ Consume /\ Ev.e = "inv" /\ pend[Ev.p] = NoOp
       /\ pend' = [pend EXCEPT ![Ev.p] = [op |-> Ev.op, pk |-> Ev.pk, lin |-> FALSE, cstate |-> "none", vid |-> 0,
                                          res |-> NoOp, dels |-> {}]]
       /\ UNCHANGED <<st, cap, creating, made, gone>>

CStart == /\ Consume /\ Ev.e = "cstart"
          /\ pend[Ev.p] # NoOp /\ pend[Ev.p].op = "get" /\ ~pend[Ev.p].lin /\ pend[Ev.p].cstate = "none"
          /\ L!KeyOf(Ev.pk) \notin creating                    \* single flight
          /\ creating' = creating \cup {L!KeyOf(Ev.pk)}
          /\ pend' = [pend EXCEPT ![Ev.p].cstate = "open"]
          /\ UNCHANGED <<st, cap, made, gone>>

CEnd == /\ Consume /\ Ev.e = "cend"
        /\ pend[Ev.p] # NoOp /\ pend[Ev.p].cstate = "open"
        /\ creating' = creating \ {L!KeyOf(pend[Ev.p].pk)}
        /\ pend' = [pend EXCEPT ![Ev.p].cstate = IF Ev.ok THEN "ok" ELSE "failed", ![Ev.p].vid = IF Ev.ok THEN Ev.vid ELSE 0]
        /\ made' = IF Ev.ok THEN made \cup {Ev.vid} ELSE made
        /\ UNCHANGED <<st, cap, gone>>

\* the delete callback: inside p's critical section
Del == /\ Consume /\ Ev.e = "del"
       /\ Ev.vid \in made /\ Ev.vid \notin gone                 \* a created value, never twice
       /\ gone' = gone \cup {Ev.vid}
       /\ IF pend[Ev.p] # NoOp /\ pend[Ev.p].lin
          THEN /\ Ev.vid \in pend[Ev.p].dels
               /\ pend' = [pend EXCEPT ![Ev.p].dels = @ \ {Ev.vid}]
               /\ UNCHANGED st
          ELSE /\ CanLin(pend[Ev.p])
               /\ LET a == L!Apply(st, cap, CallOf(pend[Ev.p]))
                  IN /\ Ev.vid \in DelSet(a)
                     /\ (pend[Ev.p].op # "clear" => a.res.deleted[1].vid = Ev.vid)
                     /\ st' = a.st
                     /\ pend' = [pend EXCEPT ![Ev.p].lin = TRUE, ![Ev.p].res = a.res, ![Ev.p].dels = DelSet(a) \ {Ev.vid}]
       /\ UNCHANGED <<cap, creating, made>>

Ret == /\ Consume /\ Ev.e = "ret" /\ ~Has(Ev, "crash")
       /\ pend[Ev.p] # NoOp /\ pend[Ev.p].lin /\ pend[Ev.p].dels = {}
       /\ pend[Ev.p].cstate # "open"
       /\ LET r == pend[Ev.p].res IN
          CASE pend[Ev.p].op = "get"    -> /\ Ev.err = r.err
                                           /\ r.err = "nil" => Ev.vid = r.vid
                                           /\ (Len(r.created) = 1) <=> (pend[Ev.p].cstate # "none")
            [] pend[Ev.p].op = "remove" -> Ev.found = r.found
            [] pend[Ev.p].op = "clear"  -> Ev.n = r.n
       /\ Ev.len <= cap                                           \* resident values never exceed the capacity
       /\ pend' = [pend EXCEPT ![Ev.p] = NoOp]
       /\ UNCHANGED <<st, cap, creating, made, gone>>

Final == /\ Consume /\ Ev.e = "final"
         /\ made = gone                                           \* none leaked, none deleted twice
         /\ UNCHANGED <<st, cap, pend, creating, made, gone>>

\* Storm: a summary line - `callers` goroutines asked for ONE key at once while its creation failed `fails` times in a row
\* before it succeeded (too many pending calls for a search over linearization orders).  What the contract says about it:
\* at no moment were two creations of the key in progress (single flight), every caller came back with the one value that
\* was created (or with a creation error of its own), the creations that succeeded were exactly one, and the final Clear
\* handed that value to the delete callback exactly once.
Storm == /\ Consume /\ Ev.e = "storm"
         /\ Ev.fails < Ev.callers            \* (every call creates at most once: with fewer failures than callers one succeeds)
         /\ Ev.max_inflight <= 1 /\ Ev.successes = 1 /\ Ev.distinct_values = 1
         /\ Ev.deleted_once = Ev.successes /\ Ev.deleted_other = 0 /\ Ev.stuck = 0
         /\ UNCHANGED <<st, cap, pend, creating, made, gone>>

Next == \/ Reset \/ Inv \/ CStart \/ CEnd \/ Del \/ Ret \/ Final \/ Storm
        \/ \E p \in Procs : Lin(p)

Spec == Init /\ [][Next]_vars
Mark == HighWater(l)
Accepted == AcceptByHighWater
=============================================================================
