------------------------------ MODULE LRUImpl ------------------------------
(* Implementation-shaped model of container/lru/ecache.go and expirable.go: *)
(* the cache is an insertion-ordered map (container/iterable.Map) plus a    *)
(* size limit, and every method is written the way the Go code performs it  *)
(* on that map:                                                             *)
(*   GetOrCreate  hit:  Get, Remove, Add (re-insertion moves the entry to   *)
(*                      the end of the insertion order = most recent)       *)
(*                miss: createNewF; on success Add, then, if maxSize < Len: *)
(*                      First, Get, Remove, onDeleteF                       *)
(*   Remove       Get, Remove, onDeleteF                                    *)
(*   Clear        Iterator; while HasNext { Next; Remove; onDeleteF }       *)
(*   ExpirableCache.GetOrCreate  GetOrCreate; if the item's ExpiresAt is    *)
(*                in the past: Remove, GetOrCreate again                    *)
(* The ordered map is modelled at its own contract level (the OrderedMap    *)
(* contract of property C10): entries carry increasing insertion ids, Add   *)
(* appends (and refuses a duplicate key), First is the oldest live entry,   *)
(* an iterator is a cursor over insertion ids that survives removals.       *)
(* The stored value carries its own expiry flag (as ExpirableItem carries   *)
(* ExpiresAt), where the contract keeps a set of stale value ids.           *)
(*                                                                          *)
(* TLC checks that this model refines the contract LRU.tla: same replies,   *)
(* same callback invocations, same abstract content after every call        *)
(* (Refines), and the contract's invariants on the refinement mapping.      *)
(* Its transitions are emitted as the tests replayed on the real code.      *)
EXTENDS Integers, Sequences, FiniteSets, Emit

CONSTANTS Caps, NK, Alias, Expirable

VARIABLES phase, cap,
          m,       \* the ordered map: [ents |-> <<[id, key, val], ...>> oldest first, nid |-> next insertion id]
                   \* val = [pk, vid, exp]  (pair{pk, v} of ecache.go; exp = "ExpiresAt is in the past")
          next, dead, hist

vars == <<phase, cap, m, next, dead, hist>>

AbsVal(x) == IF x < 0 THEN 0 - x ELSE x
KeyOf(pk) == AbsVal(pk)                     \* mapToInnerKeyF
BadCaps == {0, 0 - 1}
Keys == 1 .. NK
PKs  == Keys \cup (IF Alias THEN {0 - k : k \in Keys} ELSE {})
OutKinds == {"ok", "stale", "fail"}

\* ---- iterable.Map, contract level ----------------------------------------
EmptyMap == [ents |-> <<>>, nid |-> 1]
MIdx(mm, k) == {i \in DOMAIN mm.ents : mm.ents[i].key = k}
MHas(mm, k) == MIdx(mm, k) # {}
MGet(mm, k) == mm.ents[CHOOSE i \in MIdx(mm, k) : TRUE].val
\* Add returns an error for an existing key and changes nothing; ecache.go ignores the error
MAdd(mm, k, v) == IF MHas(mm, k) THEN mm
                  ELSE [ents |-> Append(mm.ents, [id |-> mm.nid, key |-> k, val |-> v]), nid |-> mm.nid + 1]
MRemove(mm, k) == [ents |-> SelectSeq(mm.ents, LAMBDA e : e.key # k), nid |-> mm.nid]
MLen(mm)       == Len(mm.ents)
MFirst(mm)     == mm.ents[1].key            \* used only on a non-empty map
\* iterator = cursor c over insertion ids
ItNew(mm)        == IF mm.ents = <<>> THEN mm.nid ELSE mm.ents[1].id
ItHasNext(mm, c) == \E i \in DOMAIN mm.ents : mm.ents[i].id >= c
ItNext(mm, c)    == LET i == CHOOSE i \in DOMAIN mm.ents :
                                 /\ mm.ents[i].id >= c
                                 /\ \A j \in DOMAIN mm.ents : mm.ents[j].id >= c => i <= j
                    IN mm.ents[i]

PV(v) == [pk |-> v.pk, vid |-> v.vid]       \* what the callbacks and the caller see of a stored pair

\* ---- ecache.go ------------------------------------------------------------
\* Each operator returns [m |-> map after the call, res |-> reply].
\* out: what createNewF does if it is called ("ok", "stale", "fail"); vid: the id it hands out.
GetOrCreateI(mm, c, pk, out, vid) ==
    LET k == KeyOf(pk) IN
    IF MHas(mm, k)
    THEN LET r  == MGet(mm, k)               \* items.Get(k)
             m1 == MRemove(mm, k)            \* items.Remove(k)
             m2 == MAdd(m1, k, r)            \* items.Add(k, res)
         IN [m |-> m2, val |-> r,
             res |-> [op |-> "GetOrCreate", pk |-> pk, err |-> "nil", vid |-> r.vid,
                      created |-> <<>>, deleted |-> <<>>]]
    ELSE IF out = "fail"
    THEN [m |-> mm, val |-> [pk |-> pk, vid |-> 0, exp |-> FALSE],
          res |-> [op |-> "GetOrCreate", pk |-> pk, err |-> "fail", vid |-> 0,
                   created |-> <<pk>>, deleted |-> <<>>]]
    ELSE LET v  == [pk |-> pk, vid |-> vid, exp |-> out = "stale"]
             m1 == MAdd(mm, k, v)                                  \* items.Add(k, pair{pk, v})
         IN IF c < MLen(m1)                                        \* if p.maxSize < p.items.Len()
            THEN LET k0 == MFirst(m1)                              \* k, _ := p.items.First()
                     v0 == MGet(m1, k0)                            \* v, _ := p.items.Get(k)
                     m2 == MRemove(m1, k0)                         \* p.items.Remove(k)
                 IN [m |-> m2, val |-> v,
                     res |-> [op |-> "GetOrCreate", pk |-> pk, err |-> "nil", vid |-> vid,
                              created |-> <<pk>>, deleted |-> <<PV(v0)>>]]   \* onDeleteF(v.pk, v.v)
            ELSE [m |-> m1, val |-> v,
                  res |-> [op |-> "GetOrCreate", pk |-> pk, err |-> "nil", vid |-> vid,
                           created |-> <<pk>>, deleted |-> <<>>]]

RemoveI(mm, pk) ==
    LET k == KeyOf(pk) IN
    IF ~MHas(mm, k)
    THEN [m |-> mm, res |-> [op |-> "Remove", pk |-> pk, found |-> FALSE, deleted |-> <<>>]]
    ELSE [m |-> MRemove(mm, k),
          res |-> [op |-> "Remove", pk |-> pk, found |-> TRUE, deleted |-> <<PV(MGet(mm, k))>>]]

\* the loop of Clear: <<map, cursor, delete-callback arguments so far, removed>>
RECURSIVE ClearLoop(_, _, _, _)
ClearLoop(mm, c, dels, removed) ==
    IF ItHasNext(mm, c)                                            \* for it.HasNext()
    THEN LET e == ItNext(mm, c)                                    \* e, ok := it.Next()
         IN ClearLoop(MRemove(mm, e.key), e.id + 1,                \* p.items.Remove(e.Key)
                      Append(dels, PV(e.val)), removed + 1)        \* onDeleteF(e.Value.pk, e.Value.v); removed++
    ELSE [m |-> mm, res |-> [op |-> "Clear", n |-> removed, deleted |-> dels]]
ClearI(mm) == ClearLoop(mm, ItNew(mm), <<>>, 0)

\* ---- expirable.go ---------------------------------------------------------
NOk(res) == Len(res.created) - (IF res.err = "fail" THEN 1 ELSE 0)

GetOrCreateXI(mm, c, pk, outs, vid) ==
    LET a1 == GetOrCreateI(mm, c, pk, outs[1], vid)                \* v, err := p.Cache.GetOrCreate(k)
    IN IF a1.res.err = "fail" THEN [m |-> a1.m, res |-> a1.res]    \* if err != nil { return v, err }
       ELSE IF ~a1.val.exp THEN [m |-> a1.m, res |-> a1.res]       \* not expired: return v, nil
       ELSE LET a2 == RemoveI(a1.m, pk)                            \* p.Remove(k)
                n1 == NOk(a1.res)
                a3 == GetOrCreateI(a2.m, c, pk, outs[n1 + 1], vid + n1)   \* return p.Cache.GetOrCreate(k)
            IN [m |-> a3.m,
                res |-> [op |-> "GetOrCreate", pk |-> pk, err |-> a3.res.err, vid |-> a3.res.vid,
                         created |-> a1.res.created \o a3.res.created,
                         deleted |-> a1.res.deleted \o a2.res.deleted \o a3.res.deleted]]

\* ---- the state machine -----------------------------------------------------
SnapI(mm) == [i \in 1 .. Len(mm.ents) |-> PV(mm.ents[i].val)]

Init == /\ phase = "none" /\ cap = 0 /\ m = EmptyMap
        /\ next = 1 /\ dead = <<>> /\ hist = <<>>

\* NewECache: maxSize < 1 -> error; createNewF == nil -> error
New(c, nilcreate) ==
    /\ phase = "none"
    /\ LET ok == ~(c < 1) /\ ~nilcreate IN
       /\ phase' = IF ok THEN "live" ELSE "rejected"
       /\ cap' = IF ok THEN c ELSE 0
       /\ hist' = <<[op |-> "New", cap |-> c, nilcreate |-> nilcreate, alias |-> Alias,
                     expirable |-> Expirable, ok |-> ok]>>
    /\ UNCHANGED <<m, next, dead>>

Finish(a, extra) ==
    /\ m' = a.m
    /\ next' = next + (IF a.res.op = "GetOrCreate" THEN NOk(a.res) ELSE 0)
    /\ dead' = dead \o [i \in 1 .. Len(a.res.deleted) |-> a.res.deleted[i].vid]
    /\ hist' = Append(hist, a.res @@ extra @@ [st |-> SnapI(a.m)])
    /\ UNCHANGED <<phase, cap>>

GetOrCreate(pk, fails) ==
    /\ phase = "live" /\ ~Expirable
    /\ Finish(GetOrCreateI(m, cap, pk, IF fails THEN "fail" ELSE "ok", next), [fails |-> fails])

GetOrCreateX(pk, outs) ==
    /\ phase = "live" /\ Expirable
    /\ Finish(GetOrCreateXI(m, cap, pk, outs, next), [outs |-> outs])

Remove(pk) == phase = "live" /\ Finish(RemoveI(m, pk), <<>>)
Clear      == phase = "live" /\ Finish(ClearI(m), <<>>)

Next == \/ \E c \in Caps \cup BadCaps, nilcreate \in BOOLEAN : New(c, nilcreate)
        \/ \E pk \in PKs, fails \in BOOLEAN : GetOrCreate(pk, fails)
        \/ \E pk \in PKs, o1 \in OutKinds, o2 \in OutKinds : GetOrCreateX(pk, <<o1, o2>>)
        \/ \E pk \in PKs : Remove(pk)
        \/ Clear

Spec == Init /\ [][Next]_vars

\* ---- refinement: the contract, instantiated on the abstraction ------------
AbsOrder == [i \in 1 .. Len(m.ents) |-> m.ents[i].key]
AbsVals  == [k \in {m.ents[i].key : i \in DOMAIN m.ents} |-> PV(MGet(m, k))]
AbsStale == {m.ents[i].val.vid : i \in {j \in DOMAIN m.ents : m.ents[j].val.exp}}

C == INSTANCE LRU WITH order <- AbsOrder, val <- AbsVals, stale <- AbsStale
Refines        == C!Spec
StepAccounting == C!StepAccounting

\* ---- invariants -----------------------------------------------------------
\* the contract's invariants, on the refinement mapping
AbsBounded    == C!Bounded
AbsWellFormed == C!WellFormed
AbsAccounting == C!Accounting
\* the map's own: insertion ids strictly increase along the list, no key twice
MapOK == /\ \A i, j \in DOMAIN m.ents : i < j => m.ents[i].id < m.ents[j].id /\ m.ents[i].key # m.ents[j].key
         /\ \A i \in DOMAIN m.ents : m.ents[i].id < m.nid
         /\ MLen(m) <= cap

\* insertion ids and value ids are renamed away (position in the list identifies an entry)
View == <<phase, cap, [i \in 1 .. Len(m.ents) |-> <<m.ents[i].key, m.ents[i].val.pk, m.ents[i].val.exp>>]>>
Emit == EmitHist(hist')

\* A finer view for deeper tests: the last call (without value ids) is part of the test position,
\* so TLC emits every pair of consecutive calls from every state, not only every single call.
LastCall == IF Len(hist) <= 1 THEN <<>>
            ELSE LET h == hist[Len(hist)]
                 IN <<h.op, IF "pk" \in DOMAIN h THEN h.pk ELSE 0,
                      IF "fails" \in DOMAIN h THEN h.fails ELSE FALSE,
                      IF "outs" \in DOMAIN h THEN h.outs ELSE <<>> >>
DeepView == <<View, LastCall>>

\* Simulation mode (long random behaviours on large capacities): emit a behaviour only when
\* it has reached the length given by the environment variable VERIF_EMIT_LEN.
EmitAtLen == IF "VERIF_EMIT_LEN" \in DOMAIN IOEnv /\ Len(hist') # atoi(IOEnv.VERIF_EMIT_LEN)
             THEN TRUE ELSE EmitHist(hist')
=============================================================================
