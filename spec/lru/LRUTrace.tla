------------------------------ MODULE LRUTrace ------------------------------
(* Trace validation for C08 (code -> spec).  Every line of the trace is one  *)
(* real call on a real lru.Cache / lru.ECache / lru.ExpirableCache with its   *)
(* real result and the arguments of every create- and delete-callback         *)
(* invocation made during the call.  A line is consumed only if all of that   *)
(* is exactly what LRU!Apply (LRU!ApplyX for the expirable cache) prescribes  *)
(* for the current abstract state; the trace is accepted iff every line was   *)
(* consumed.  "New" lines start a fresh cache (many traces are concatenated)  *)
(* and carry the constructor contract: maxSize < 1 or a nil create function   *)
(* must have been rejected, anything else accepted.                           *)
(* Lines flagged nodel come from a cache built with a nil delete callback:    *)
(* nothing can be observed about deletions there.                             *)
EXTENDS TraceLib

VARIABLES st,     \* abstract cache [order, val, stale]
          cap,    \* its capacity
          xp,     \* it is an ExpirableCache
          nxt,    \* next value id (the harness numbers successful creations 1, 2, ...)
          live,   \* the constructor accepted
          l       \* cursor into the trace

L == INSTANCE LRU WITH Caps <- {}, NK <- 0, Alias <- FALSE, Expirable <- FALSE,
                       phase <- "none", cap <- 0, order <- <<>>, val <- <<>>, stale <- {},
                       next <- 1, dead <- <<>>, hist <- <<>>

Ev == Trace[l]
NoSt == [order |-> <<>>, val |-> <<>>, stale |-> {}]

CallOf(e) ==
    CASE e.op = "GetOrCreate" ->
           IF xp THEN [op |-> "GetOrCreate", pk |-> e.pk, outs |-> e.outs, vid |-> nxt]
                 ELSE [op |-> "GetOrCreate", pk |-> e.pk, fails |-> e.fails, vid |-> nxt]
      [] e.op = "Remove" -> [op |-> "Remove", pk |-> e.pk]
      [] e.op = "Clear"  -> [op |-> "Clear"]

Result(call) ==
    IF xp THEN L!ApplyX(st, cap, call)
    ELSE LET a == L!Apply(L!Base(st), cap, call) IN [st |-> L!WithStale(a.st, {}), res |-> a.res]

SameSet(s, t) == Len(s) = Len(t) /\ L!SeqRange(s) = L!SeqRange(t)

\* the logged reply e against the prescribed reply res, field by field
Matches(e, res) ==
    \A f \in DOMAIN res :
        /\ Has(e, f)
        /\ CASE f = "deleted" -> \/ Has(e, "nodel")
                                 \/ IF res.op = "Clear" THEN SameSet(e[f], res[f])   \* order left open
                                                        ELSE e[f] = res[f]
             [] f = "vid"     -> res.err # "nil" \/ e[f] = res[f]      \* no value with an error
             [] OTHER         -> e[f] = res[f]

Init == st = NoSt /\ cap = 0 /\ xp = FALSE /\ nxt = 1 /\ live = FALSE /\ l = 1

New == /\ l <= Len(Trace) /\ Ev.op = "New"
       /\ ~Has(Ev, "crash")
       /\ LET ok == Ev.cap >= 1 /\ ~Ev.nilcreate IN
          /\ Ev.ok = ok
          /\ live' = ok
          /\ cap' = IF ok THEN Ev.cap ELSE 0
       /\ st' = NoSt /\ xp' = Ev.expirable /\ nxt' = 1 /\ l' = l + 1

Call == /\ l <= Len(Trace) /\ Ev.op \in {"GetOrCreate", "Remove", "Clear"}
        /\ live
        /\ ~Has(Ev, "crash")
        /\ LET a == Result(CallOf(Ev))
           IN /\ Matches(Ev, a.res)
              /\ st' = a.st
              /\ nxt' = nxt + L!CreatedOk(a.res)
        /\ UNCHANGED <<cap, xp, live>> /\ l' = l + 1

Next == New \/ Call
Spec == Init /\ [][Next]_<<st, cap, xp, nxt, live, l>>

\* checked on every consumed prefix: the capacity bound of the property
Bounded == Len(st.order) <= cap
Accepted == AcceptByDiameter
=============================================================================
