------------------------------- MODULE Merge -------------------------------
(* Contract of iterable.Mixer (property C18): a faithful two-way merge.      *)
(*                                                                           *)
(* Only API-observable values appear here: the two input sequences s1, s2,   *)
(* the selector sel, which inputs can be reset (r1, r2), and the replies of  *)
(* HasNext / Next / Reset.  The whole state of the merge is the position     *)
(* (i, j): s1[i] and s2[j] are the heads of the two inputs.                  *)
(*                                                                           *)
(*   Next     emits s1[i] iff i <= Len(s1) /\ (j > Len(s2) \/ sel(s1[i],s2[j])) *)
(*            else s2[j] if j <= Len(s2), else reports exhaustion (ok=FALSE) *)
(*   HasNext  <=> not both inputs exhausted; does not move the position      *)
(*   Reset    -> (1, 1) when both inputs can be reset                        *)
(*                                                                           *)
(* The property says nothing about a Reset on inputs that cannot be reset.   *)
(* The contract therefore leaves everything open after such a Reset          *)
(* (known = FALSE: the position is no longer known) EXCEPT the clause that   *)
(* holds "under any call pattern": HasNext is idempotent and agrees with the *)
(* following Next.  That clause is carried by `last`: the commitment made by *)
(* the last HasNext reply, valid until the next Next or Reset.               *)
(*                                                                           *)
(* The inputs are chosen nondeterministically in Init and recorded as the    *)
(* first step of `hist`, so each emitted behaviour is self-contained.        *)
(* `hist` (call/response history) is excluded from the VIEW.  `out` is the   *)
(* output emitted since the last restart, tagged with the source it came     *)
(* from; it is a function of (inputs, i, j) and only serves the invariants   *)
(* below (what the property promises about the merged output as a whole).    *)
(*                                                                           *)
(* The operators Pref / More / Step / Rest / HasNextAllowed / NextAllowed /  *)
(* AfterNext / Commit are the single definition of the contract: they are    *)
(* used by the actions here, by MixerImpl's refinement check and by          *)
(* MergeTrace (code -> spec trace validation).                               *)
EXTENDS Integers, Sequences, Emit

CONSTANTS Vals,    \* non-zero values the inputs are made of (0 is Go's zero value)
          Len1s,   \* allowed lengths of s1 (a set, so that TLC runs can be partitioned)
          Len2s,   \* allowed lengths of s2
          Sels,    \* subset of {"lt", "le", "true", "false"}
          R1s,     \* subset of BOOLEAN: may the first input be resettable / not
          R2s      \* same for the second input

VARIABLES s1, s2, sel, r1, r2,   \* the inputs: fixed by Init, never changed
          i, j,                  \* position: heads are s1[i], s2[j]; (0,0) when unknown
          known,                 \* FALSE after a Reset that could not reset both inputs
          last,                  \* "none" | "t" | "f": commitment of the last HasNext
          out,                   \* emitted since last restart: sequence of <<source, value>>
          hist

inputs == <<s1, s2, sel, r1, r2>>
vars   == <<s1, s2, sel, r1, r2, i, j, known, last, out, hist>>

\* ---- the contract, as operators ---------------------------------------------

\* The selector: TRUE iff the first input's head a is preferred to the second's head b.
Pref(sl, a, b) ==
    CASE sl = "lt"    -> a < b
      [] sl = "le"    -> a <= b
      [] sl = "true"  -> TRUE
      [] sl = "false" -> FALSE

More(a, b, ii, jj) == ii <= Len(a) \/ jj <= Len(b)

\* "emits the first input's head exactly when the selector prefers it or the
\*  second input is exhausted"
TakeFirst(a, b, sl, ii, jj) ==
    ii <= Len(a) /\ (jj > Len(b) \/ Pref(sl, a[ii], b[jj]))

\* One Next at position (ii, jj): new position, the reply, and the source used.
Step(a, b, sl, ii, jj) ==
    IF TakeFirst(a, b, sl, ii, jj)
    THEN [i |-> ii + 1, j |-> jj, ok |-> TRUE, v |-> a[ii], src |-> 1]
    ELSE IF jj <= Len(b)
         THEN [i |-> ii, j |-> jj + 1, ok |-> TRUE, v |-> b[jj], src |-> 2]
         ELSE [i |-> ii, j |-> jj, ok |-> FALSE, v |-> 0, src |-> 0]

\* HasNext commitment: a HasNext reply binds later HasNext replies (idempotence)
\* and the ok flag of the following Next (agreement), in every mode.
Commit(b) == IF b THEN "t" ELSE "f"
Allowed(lst, b) == lst = "none" \/ lst = Commit(b)

\* Is `has` an allowed reply of HasNext?
HasNextAllowed(kn, lst, a, b, ii, jj, has) ==
    /\ kn => has = More(a, b, ii, jj)
    /\ Allowed(lst, has)

\* Is (v, ok) an allowed reply of Next?  The value that accompanies ok = FALSE
\* is not fixed by the property (the code returns the zero value).
NextAllowed(kn, lst, a, b, sl, ii, jj, v, ok) ==
    /\ Allowed(lst, ok)
    /\ kn => LET n == Step(a, b, sl, ii, jj)
             IN ok = n.ok /\ (n.ok => v = n.v)

\* Commitment after a Next: none, except that an iterator that has just
\* reported exhaustion may already be committed to HasNext = FALSE.
AfterNext(ok) == IF ok THEN {"none"} ELSE {"none", "f"}

\* Everything the merge still has to emit from position (ii, jj): the rule of
\* Step repeated until exhaustion.  (Written with explicit positions rather than
\* through Step's record: TLC passes operator arguments unevaluated, and a chain
\* of n.i / n.j arguments is re-evaluated exponentially often.)
\* Used (a) in the invariant WholeMerge: output so far \o Rest = the whole merge,
\* and (b) as the epilogue of every emitted behaviour (see Epilogue).
RECURSIVE Rest(_, _, _, _, _)
Rest(a, b, sl, ii, jj) ==
    IF TakeFirst(a, b, sl, ii, jj) THEN <<a[ii]>> \o Rest(a, b, sl, ii + 1, jj)
    ELSE IF jj <= Len(b)           THEN <<b[jj]>> \o Rest(a, b, sl, ii, jj + 1)
    ELSE <<>>

\* ---- state machine ----------------------------------------------------------

SeqsOf(n) == [1 .. n -> Vals]
AnyVals == Vals \cup {0}

Init ==
    /\ s1 \in UNION {SeqsOf(n) : n \in Len1s}
    /\ s2 \in UNION {SeqsOf(n) : n \in Len2s}
    /\ sel \in Sels /\ r1 \in R1s /\ r2 \in R2s
    /\ i = 1 /\ j = 1 /\ known = TRUE /\ last = "none" /\ out = <<>>
    /\ hist = <<[op |-> "New", s1 |-> s1, s2 |-> s2, sel |-> sel, r1 |-> r1, r2 |-> r2]>>

\* free = TRUE marks replies the contract does not derive from the position
\* (after a failed Reset); only idempotence/agreement binds them.
HasNext ==
    \E has \in BOOLEAN :
       /\ HasNextAllowed(known, last, s1, s2, i, j, has)
       /\ last' = Commit(has)
       /\ hist' = Append(hist, [op |-> "HasNext", has |-> has, free |-> ~known])
       /\ UNCHANGED <<inputs, i, j, known, out>>

NextOp ==
    \E v \in AnyVals, ok \in BOOLEAN :
       /\ NextAllowed(known, last, s1, s2, sel, i, j, v, ok)
       /\ last' \in AfterNext(ok)
       /\ IF known
          THEN LET n == Step(s1, s2, sel, i, j)
               IN /\ i' = n.i /\ j' = n.j
                  /\ out' = IF n.ok THEN Append(out, <<n.src, n.v>>) ELSE out
          ELSE UNCHANGED <<i, j, out>>
       /\ hist' = Append(hist, [op |-> "Next", v |-> v, ok |-> ok, free |-> ~known])
       /\ UNCHANGED <<inputs, known>>

\* "Reset restarts the merge from the beginning when both inputs can be reset."
ResetOK ==
    /\ r1 /\ r2
    /\ i' = 1 /\ j' = 1 /\ known' = TRUE /\ last' = "none" /\ out' = <<>>
    /\ hist' = Append(hist, [op |-> "Reset", ok |-> TRUE, free |-> FALSE])
    /\ UNCHANGED inputs

\* Otherwise: nothing is promised about the reply or the position afterwards.
ResetOther ==
    /\ ~(r1 /\ r2)
    /\ \E ok \in BOOLEAN :
          hist' = Append(hist, [op |-> "Reset", ok |-> ok, free |-> TRUE])
    /\ i' = 0 /\ j' = 0 /\ known' = FALSE /\ out' = <<>>
    /\ last' \in {"none", "t", "f"}
    /\ UNCHANGED inputs

Next == HasNext \/ NextOp \/ ResetOK \/ ResetOther

Spec == Init /\ [][Next]_vars

\* ---- what the property says about the merge as a whole ----------------------
\* (checked by TLC on this contract; MixerImpl inherits them by refinement)

TypeOK ==
    /\ known => i \in 1 .. Len(s1) + 1 /\ j \in 1 .. Len(s2) + 1
    /\ last \in {"none", "t", "f"}
    /\ known \in BOOLEAN

\* values of `o` that came from source k, in emission order
FromSrc(o, k) == LET t == SelectSeq(o, LAMBDA p : p[1] = k)
                 IN [n \in 1 .. Len(t) |-> t[n][2]]
ValuesOf(o) == [n \in 1 .. Len(o) |-> o[n][2]]
NonDecr(s) == \A k \in 1 .. Len(s) - 1 : s[k] <= s[k + 1]

\* Order-preserving interleaving, nothing duplicated, nothing skipped: what has
\* been emitted from each input is exactly the prefix of it before the head.
Interleaving ==
    known => /\ FromSrc(out, 1) = SubSeq(s1, 1, i - 1)
             /\ FromSrc(out, 2) = SubSeq(s2, 1, j - 1)
             /\ Len(out) = (i - 1) + (j - 1)

\* When the merge reports exhaustion every element of both inputs has been
\* emitted exactly once.
Complete ==
    (known /\ ~More(s1, s2, i, j)) =>
        /\ FromSrc(out, 1) = s1 /\ FromSrc(out, 2) = s2
        /\ Len(out) = Len(s1) + Len(s2)

\* The output so far followed by what is still to come is the whole merge,
\* wherever HasNext / Next / Reset calls have led.
WholeMerge ==
    known => ValuesOf(out) \o Rest(s1, s2, sel, i, j) = Rest(s1, s2, sel, 1, 1)

\* Inputs sorted under the selector merge into a sorted output (< and <=).
SortedMerge ==
    (known /\ sel \in {"lt", "le"} /\ NonDecr(s1) /\ NonDecr(s2)) => NonDecr(ValuesOf(out))

\* A standing HasNext commitment never contradicts the position.
AgreeInv ==
    (known /\ last # "none") => (last = "t") = More(s1, s2, i, j)

\* Every Next while something is left emits exactly one element (so the
\* exhausted position, where Complete applies, is reached after
\* Len(s1)+Len(s2) successful Next calls); HasNext never moves the position.
LastOp == hist'[Len(hist')].op
Progress ==
    [][ /\ (LastOp = "Next" /\ known) =>
              /\ hist'[Len(hist')].ok = More(s1, s2, i, j)
              /\ Len(out') = Len(out) + (IF More(s1, s2, i, j) THEN 1 ELSE 0)
              /\ (i' + j') = (i + j) + (IF More(s1, s2, i, j) THEN 1 ELSE 0)
        /\ LastOp = "HasNext" => <<i, j, known, out>>' = <<i, j, known, out>>
      ]_vars

View == <<s1, s2, sel, r1, r2, i, j, known, last, out>>

\* Behaviour emission.  A test that ends with the call of an edge would not see
\* what that call did to the position (e.g. a Reset that forgot something), so
\* every emitted behaviour is closed by an epilogue the harness executes as
\* "drain the merge": the Next calls must yield exactly Rest, then report
\* exhaustion.  After a failed Reset nothing is known about the position
\* (free = TRUE: the harness only probes HasNext/Next agreement).
Epilogue == IF known
            THEN [op |-> "Drain", vs |-> Rest(s1, s2, sel, i, j), free |-> FALSE]
            ELSE [op |-> "Drain", vs |-> <<>>, free |-> TRUE]
Emit == EmitHist(Append(hist', Epilogue'))
=============================================================================
