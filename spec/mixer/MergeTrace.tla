----------------------------- MODULE MergeTrace -----------------------------
(* Trace validation for C18 (code -> spec): long random inputs.             *)
(* Every line of the trace is one real call on a real iterable.Mixer[int]   *)
(* with its real reply.  A "New" line carries the two input slices, the     *)
(* selector name and whether each input can be reset, and starts a fresh    *)
(* merge (many traces are concatenated in one file).  A call line is        *)
(* consumed only if its reply is one that Merge.tla allows at the current   *)
(* position - the same operators (Step, HasNextAllowed, NextAllowed,        *)
(* AfterNext, Commit) the contract's own actions are written with.          *)
(* After a Reset that could not reset both inputs only idempotence of       *)
(* HasNext and its agreement with the following Next are required.          *)
(* A line with a "crash" field (the call panicked) matches no action.       *)
EXTENDS TraceLib

VARIABLES s1, s2, sel, r1, r2, i, j, known, last, l

M == INSTANCE Merge WITH Vals <- {}, Len1s <- {}, Len2s <- {}, Sels <- {}, R1s <- {}, R2s <- {},
                         out <- <<>>, hist <- <<>>

Ev == Trace[l]
inputs == <<s1, s2, sel, r1, r2>>

Init == /\ s1 = <<>> /\ s2 = <<>> /\ sel = "true" /\ r1 = TRUE /\ r2 = TRUE
        /\ i = 1 /\ j = 1 /\ known = TRUE /\ last = "none" /\ l = 1

New == /\ l <= Len(Trace) /\ Ev.op = "New"
       /\ s1' = Ev.s1 /\ s2' = Ev.s2 /\ sel' = Ev.sel /\ r1' = Ev.r1 /\ r2' = Ev.r2
       /\ i' = 1 /\ j' = 1 /\ known' = TRUE /\ last' = "none"
       /\ l' = l + 1

HasNext ==
    /\ l <= Len(Trace) /\ Ev.op = "HasNext" /\ ~Has(Ev, "crash")
    /\ M!HasNextAllowed(known, last, s1, s2, i, j, Ev.has)
    /\ last' = M!Commit(Ev.has)
    /\ UNCHANGED <<inputs, i, j, known>> /\ l' = l + 1

NextOp ==
    /\ l <= Len(Trace) /\ Ev.op = "Next" /\ ~Has(Ev, "crash")
    /\ M!NextAllowed(known, last, s1, s2, sel, i, j, Ev.v, Ev.ok)
    /\ last' \in M!AfterNext(Ev.ok)
    /\ IF known
       THEN LET n == M!Step(s1, s2, sel, i, j) IN i' = n.i /\ j' = n.j
       ELSE UNCHANGED <<i, j>>
    /\ UNCHANGED <<inputs, known>> /\ l' = l + 1

Reset ==
    /\ l <= Len(Trace) /\ Ev.op = "Reset" /\ ~Has(Ev, "crash")
    /\ IF r1 /\ r2
       THEN /\ Ev.ok = TRUE
            /\ i' = 1 /\ j' = 1 /\ known' = TRUE /\ last' = "none"
       ELSE /\ i' = 0 /\ j' = 0 /\ known' = FALSE
            /\ last' \in {"none", "t", "f"}
    /\ UNCHANGED inputs /\ l' = l + 1

Next == New \/ HasNext \/ NextOp \/ Reset
Spec == Init /\ [][Next]_<<s1, s2, sel, r1, r2, i, j, known, last, l>>
Accepted == AcceptByDiameter
=============================================================================
