----------------------------- MODULE MixerImpl -----------------------------
(* Implementation-shaped model of container/iterable/mixer.go (C18).       *)
(*                                                                         *)
(* The code's own variables:                                               *)
(*   src1 = (it, load, e), src2 = (it, load, e)  one-element look-ahead per *)
(*          source: `load` says whether `e` holds an element already pulled *)
(*          from the source iterator but not yet emitted;                  *)
(*   st     the 4-state selector: 0 = undecided, 1 = emit src1.e next,     *)
(*          2 = emit src2.e next, 3 = both sources exhausted.              *)
(* The source iterators are intIterator (intit.go): a slice and an index;  *)
(* p1, p2 are the 1-based indices of the next element each will hand out.  *)
(* A source that is not a golibs.Reseter (r1/r2 = FALSE) makes             *)
(* srcDesc.reset() return ErrUnimplemented - after dropping the look-ahead.*)
(*                                                                         *)
(* One action per API call; selectState() is the operator Sel.  TLC checks *)
(* that this refines Merge.tla (same replies, position (i,j) = source      *)
(* index minus a loaded look-ahead element) and the representation         *)
(* invariants below.  Its state graph contains every (look-ahead, st)      *)
(* combination under every call pattern: HasNext twice, Next without       *)
(* HasNext, Reset with a loaded element, calls after exhaustion, ...; one   *)
(* behaviour per edge is emitted and replayed on the real Mixer[int].      *)
(*                                                                         *)
(* Ghost variables (not in the code): `failed` - a Reset has returned an   *)
(* error, from then on Merge.tla promises only HasNext/Next agreement;     *)
(* `out` - the output since the last restart (for Merge's invariants).     *)
EXTENDS Integers, Sequences, Emit

CONSTANTS Vals, Len1s, Len2s, Sels, R1s, R2s

VARIABLES s1, s2, sel, r1, r2,        \* inputs, fixed by Init
          p1, ld1, e1,                \* src1: iterator index, load, e
          p2, ld2, e2,                \* src2
          st,
          failed, out,                \* ghosts
          hist

inputs == <<s1, s2, sel, r1, r2>>
vars == <<s1, s2, sel, r1, r2, p1, ld1, e1, p2, ld2, e2, st, failed, out, hist>>

\* mr.sf(src1.e, src2.e): the same four selectors the harness passes in
TestFunc(a, b) ==
    CASE sel = "lt"    -> a < b
      [] sel = "le"    -> a <= b
      [] sel = "true"  -> TRUE
      [] sel = "false" -> FALSE

SeqsOf(n) == [1 .. n -> Vals]

Init ==
    /\ s1 \in UNION {SeqsOf(n) : n \in Len1s}
    /\ s2 \in UNION {SeqsOf(n) : n \in Len2s}
    /\ sel \in Sels /\ r1 \in R1s /\ r2 \in R2s
    /\ p1 = 1 /\ ld1 = FALSE /\ e1 = 0
    /\ p2 = 1 /\ ld2 = FALSE /\ e2 = 0
    /\ st = 0 /\ failed = FALSE /\ out = <<>>
    /\ hist = <<[op |-> "New", s1 |-> s1, s2 |-> s2, sel |-> sel, r1 |-> r1, r2 |-> r2]>>

\* selectState(): the mixer's fields after the call, as a record.
Cur == [p1 |-> p1, ld1 |-> ld1, e1 |-> e1, p2 |-> p2, ld2 |-> ld2, e2 |-> e2, st |-> st]

Sel ==
    IF st # 0
    THEN Cur
    ELSE LET \* if !src1.load && src1.it.HasNext() { src1.e, src1.load = src1.it.Next() }
             a == IF ~ld1 /\ p1 <= Len(s1)
                  THEN [Cur EXCEPT !.e1 = s1[p1], !.ld1 = TRUE, !.p1 = p1 + 1]
                  ELSE Cur
             \* the same for src2
             b == IF ~ld2 /\ p2 <= Len(s2)
                  THEN [a EXCEPT !.e2 = s2[p2], !.ld2 = TRUE, !.p2 = p2 + 1]
                  ELSE a
             nst == IF ~b.ld1 /\ ~b.ld2 THEN 3
                    ELSE IF ~b.ld1 THEN 2
                    ELSE IF ~b.ld2 \/ TestFunc(b.e1, b.e2) THEN 1
                    ELSE 2
         IN [b EXCEPT !.st = nst]

SetFields(m) ==
    /\ p1' = m.p1 /\ ld1' = m.ld1 /\ e1' = m.e1
    /\ p2' = m.p2 /\ ld2' = m.ld2 /\ e2' = m.e2
    /\ st' = m.st

\* HasNext: selectState(); return st != 3
HasNext ==
    LET m == Sel
    IN /\ SetFields(m)
       /\ hist' = Append(hist, [op |-> "HasNext", has |-> (m.st # 3), free |-> failed])
       /\ UNCHANGED <<inputs, failed, out>>

\* Next: selectState(); switch st { case 1: ...; case 2: ...}; return zero, false
NextOp ==
    LET m == Sel
    IN CASE m.st = 1 ->
              /\ SetFields([m EXCEPT !.st = 0, !.ld1 = FALSE])
              /\ hist' = Append(hist, [op |-> "Next", v |-> m.e1, ok |-> TRUE, free |-> failed])
              /\ out' = IF failed THEN out ELSE Append(out, <<1, m.e1>>)
              /\ UNCHANGED <<inputs, failed>>
         [] m.st = 2 ->
              /\ SetFields([m EXCEPT !.st = 0, !.ld2 = FALSE])
              /\ hist' = Append(hist, [op |-> "Next", v |-> m.e2, ok |-> TRUE, free |-> failed])
              /\ out' = IF failed THEN out ELSE Append(out, <<2, m.e2>>)
              /\ UNCHANGED <<inputs, failed>>
         [] OTHER ->
              /\ SetFields(m)
              /\ hist' = Append(hist, [op |-> "Next", v |-> 0, ok |-> FALSE, free |-> failed])
              /\ UNCHANGED <<inputs, failed, out>>

\* Reset: src1.reset() (drop look-ahead, then reset the iterator or fail),
\* then src2.reset(), then st = 0.  An early return leaves the rest untouched -
\* in particular st keeps its value.
Reset ==
    /\ ld1' = FALSE /\ e1' = 0
    /\ IF ~r1
       THEN \* src1 is not a Reseter: return ErrUnimplemented
            /\ UNCHANGED <<p1, p2, ld2, e2, st>>
            /\ failed' = TRUE /\ out' = <<>>
            /\ hist' = Append(hist, [op |-> "Reset", ok |-> FALSE, free |-> TRUE])
       ELSE /\ p1' = 1
            /\ ld2' = FALSE /\ e2' = 0
            /\ IF ~r2
               THEN \* "cannot reset src2": src1 has been rewound, src2 has not
                    /\ UNCHANGED <<p2, st>>
                    /\ failed' = TRUE /\ out' = <<>>
                    /\ hist' = Append(hist, [op |-> "Reset", ok |-> FALSE, free |-> TRUE])
               ELSE /\ p2' = 1 /\ st' = 0
                    /\ failed' = FALSE /\ out' = <<>>
                    /\ hist' = Append(hist, [op |-> "Reset", ok |-> TRUE, free |-> FALSE])
    /\ UNCHANGED inputs

Next == HasNext \/ NextOp \/ Reset

Spec == Init /\ [][Next]_vars

\* ---- refinement: the contract, instantiated on the abstraction --------------
\* The head of input k is the loaded look-ahead element if there is one, else
\* the element the source iterator would hand out next.  A decided selector
\* (st # 0) is a standing HasNext commitment.
AbsI == IF failed THEN 0 ELSE p1 - (IF ld1 THEN 1 ELSE 0)
AbsJ == IF failed THEN 0 ELSE p2 - (IF ld2 THEN 1 ELSE 0)
Abs == INSTANCE Merge WITH
          i <- AbsI, j <- AbsJ,
          known <- ~failed,
          last <- IF st = 0 THEN "none" ELSE IF st = 3 THEN "f" ELSE "t"
Refines == Abs!Spec

\* ---- representation invariants (while no Reset has failed) ------------------
TypeOK ==
    /\ p1 \in 1 .. Len(s1) + 1 /\ p2 \in 1 .. Len(s2) + 1
    /\ st \in 0 .. 3 /\ ld1 \in BOOLEAN /\ ld2 \in BOOLEAN

\* a loaded look-ahead element is the element just before the iterator index
LoadInv ==
    ~failed => /\ ld1 => (p1 > 1 /\ e1 = s1[p1 - 1])
               /\ ld2 => (p2 > 1 /\ e2 = s2[p2 - 1])

\* the selector state is consistent with the look-ahead
StInv ==
    ~failed => /\ st = 1 => ld1
               /\ st = 2 => ld2
               /\ st = 3 => (~ld1 /\ ~ld2 /\ p1 = Len(s1) + 1 /\ p2 = Len(s2) + 1)
               /\ (st = 1 /\ ld2) => TestFunc(e1, e2)
               /\ (st = 2 /\ ld1) => ~TestFunc(e1, e2)

View == <<s1, s2, sel, r1, r2, p1, ld1, e1, p2, ld2, e2, st, failed, out>>
\* every emitted behaviour ends with the contract's epilogue (Merge!Epilogue):
\* the harness drains the real mixer and must see exactly the rest of the merge
Emit == EmitHist(Append(hist', Abs!Epilogue'))
=============================================================================
