------------------------------- MODULE RingBig -------------------------------
(* The contract of RingBuffer.tla specialised to ONE workload, so that it     *)
(* can be evaluated on capacities of tens of thousands of elements: the       *)
(* driver writes the consecutive integers lo0, lo0+1, ... (a value that was   *)
(* refused is offered again), hence the abstract queue is always an interval  *)
(* lo .. hi-1 and every reply can be summarised by a few numbers:             *)
(*   a run of n Writes   -> how many were accepted, and whether every         *)
(*                          acceptance preceded every refusal (inorder)       *)
(*   ReadN               -> length, first, last, "consecutive" (computed by   *)
(*                          the harness from the real slice)                  *)
(*   Scan                -> the same summary of At(0) .. At(Len-1)            *)
(* BigApply is NOT a second oracle: the invariant Agree (checked by TLC on    *)
(* every small interval, capacity and call) says that summarising what        *)
(* RingBuffer!Apply prescribes for the interval gives exactly BigApply.       *)
EXTENDS Integers, Sequences, TLC

RB == INSTANCE RingBuffer WITH Cap <- 0, Vals <- {}, MaxArg <- 0, q <- <<>>, hist <- <<>>

Min(a, b) == IF a < b THEN a ELSE b
Max(a, b) == IF a > b THEN a ELSE b
Interval(lo, hi) == [i \in 1 .. (hi - lo) |-> lo + i - 1]
Consec(s) == \A i \in 1 .. (Len(s) - 1) : s[i + 1] = s[i] + 1
Summ(s) == [k |-> Len(s), first |-> IF Len(s) > 0 THEN s[1] ELSE 0,
            last |-> IF Len(s) > 0 THEN s[Len(s)] ELSE 0, consec |-> Consec(s)]
ISumm(lo, k) == [k |-> k, first |-> IF k > 0 THEN lo ELSE 0, last |-> IF k > 0 THEN lo + k - 1 ELSE 0, consec |-> TRUE]

\* the interval contract: [lo, hi, res]
BigApply(lo, hi, cap, call) ==
    LET len == hi - lo
        moved(n) == Min(Max(n, 0), len)
    IN CASE call.op = "WriteRun" ->
              LET ok == Min(call.n, cap - len)
              IN [lo |-> lo, hi |-> hi + ok, res |-> [op |-> "WriteRun", n |-> call.n, ok |-> ok, inorder |-> TRUE]]
         [] call.op = "Read" ->
              IF len = 0 THEN [lo |-> lo, hi |-> hi, res |-> [op |-> "Read", v |-> 0, err |-> "eof"]]
              ELSE [lo |-> lo + 1, hi |-> hi, res |-> [op |-> "Read", v |-> lo, err |-> "nil"]]
         [] call.op = "ReadN" ->
              LET k == moved(call.n)
              IN [lo |-> lo + k, hi |-> hi, res |-> [op |-> "ReadN", n |-> call.n] @@ ISumm(lo, k)]
         [] call.op = "Skip" ->
              LET k == moved(call.n)
              IN [lo |-> lo + k, hi |-> hi, res |-> [op |-> "Skip", n |-> call.n, k |-> k]]
         [] call.op = "At" ->
              LET ok == call.i >= 0 /\ call.i < len
              IN [lo |-> lo, hi |-> hi, res |-> [op |-> "At", i |-> call.i, panic |-> ~ok, v |-> IF ok THEN lo + call.i ELSE 0]]
         [] call.op = "Scan"  -> [lo |-> lo, hi |-> hi, res |-> [op |-> "Scan"] @@ ISumm(lo, len)]
         [] call.op = "Clear" -> [lo |-> hi, hi |-> hi, res |-> [op |-> "Clear"]]
         [] call.op = "Len"   -> [lo |-> lo, hi |-> hi, res |-> [op |-> "Len", k |-> len]]
         [] call.op = "Cap"   -> [lo |-> lo, hi |-> hi, res |-> [op |-> "Cap", k |-> cap]]

\* ---- the same calls through RingBuffer!Apply, summarised ---------------------------------
\* a run of n Writes of the next consecutive values; a refused value is offered again
RECURSIVE RunWrites(_, _, _, _, _)
RunWrites(qq, cap, next, n, ok) ==
    IF n = 0 THEN [q |-> qq, ok |-> ok]
    ELSE LET a == RB!Apply(qq, cap, [op |-> "Write", v |-> next])
         IN IF a.res.err = "nil" THEN RunWrites(a.q, cap, next + 1, n - 1, ok + 1)
            ELSE RunWrites(a.q, cap, next, n - 1, ok)
\* (with a bounded FIFO a refusal is never followed by an acceptance inside one run: checked by RunInOrder)
RECURSIVE RunInOrder(_, _, _, _, _)
RunInOrder(qq, cap, next, n, refused) ==
    IF n = 0 THEN TRUE
    ELSE LET a == RB!Apply(qq, cap, [op |-> "Write", v |-> next])
         IN IF a.res.err = "nil" THEN ~refused /\ RunInOrder(a.q, cap, next + 1, n - 1, refused)
            ELSE RunInOrder(a.q, cap, next, n - 1, TRUE)

ViaContract(lo, hi, cap, call) ==
    LET qq == Interval(lo, hi)
    IN CASE call.op = "WriteRun" ->
              LET r == RunWrites(qq, cap, hi, call.n, 0)
              IN [q |-> r.q, res |-> [op |-> "WriteRun", n |-> call.n, ok |-> r.ok, inorder |-> RunInOrder(qq, cap, hi, call.n, FALSE)]]
         [] call.op = "ReadN" ->
              LET a == RB!Apply(qq, cap, call)
              IN [q |-> a.q, res |-> [op |-> "ReadN", n |-> call.n] @@ Summ(a.res.vs)]
         [] call.op = "Scan" ->
              LET vs == [i \in 1 .. Len(qq) |-> RB!Apply(qq, cap, [op |-> "At", i |-> i - 1]).res.v]
              IN [q |-> qq, res |-> [op |-> "Scan"] @@ Summ(vs)]
         [] OTHER -> RB!Apply(qq, cap, call)

CONSTANTS MaxCap, MaxLo
Calls(cap) == {[op |-> "WriteRun", n |-> n] : n \in 0 .. cap + 2}
              \cup {[op |-> "Read"], [op |-> "Clear"], [op |-> "Len"], [op |-> "Cap"], [op |-> "Scan"]}
              \cup {[op |-> "ReadN", n |-> n] : n \in 0 .. cap + 2}
              \cup {[op |-> "Skip", n |-> n] : n \in -1 .. cap + 2}
              \cup {[op |-> "At", i |-> i] : i \in -1 .. cap + 1}

Agree == \A cap \in 0 .. MaxCap, lo \in 1 .. MaxLo :
           \A len \in 0 .. cap :
             \A call \in Calls(cap) :
               LET b == BigApply(lo, lo + len, cap, call)
                   v == ViaContract(lo, lo + len, cap, call)
               IN /\ b.res = v.res
                  /\ Interval(b.lo, b.hi) = v.q

VARIABLE x
Init == x = 0
Next == UNCHANGED x
Spec == Init /\ [][Next]_x
=============================================================================
