---------------------------- MODULE RingBigTrace ----------------------------
(* Trace validation for C14 on LARGE capacities (code -> spec): the recorded  *)
(* calls of the consecutive-integers workload (see RingBig.tla) with their     *)
(* real, summarised replies; a line is consumed only if the reply is exactly   *)
(* what RingBig!BigApply - proved by TLC to be RingBuffer!Apply summarised -   *)
(* prescribes.  nz = number of non-zero slots of the real backing array must   *)
(* equal the abstract length (consumed slots reference nothing).               *)
EXTENDS TraceLib

VARIABLES lo, hi, cap, unit, l

RBig == INSTANCE RingBig WITH MaxCap <- 0, MaxLo <- 0, x <- 0

Ev == Trace[l]

CallOf(e) ==
    CASE e.op = "WriteRun" -> [op |-> "WriteRun", n |-> e.n]
      [] e.op = "ReadN" -> [op |-> "ReadN", n |-> e.n]
      [] e.op = "Skip"  -> [op |-> "Skip", n |-> e.n]
      [] e.op = "At"    -> [op |-> "At", i |-> e.i]
      [] OTHER          -> [op |-> e.op]

Matches(e, res) == \A f \in DOMAIN res : Has(e, f) /\ e[f] = res[f]
\* elements of size zero (RingBuffer[struct{}]): values cannot be told apart - counts, errors and panics are compared
ValueFields == {"v", "first", "last", "consec"}
MatchesUnit(e, res) == \A f \in DOMAIN res \ ValueFields : Has(e, f) /\ e[f] = res[f]

Init == lo = 1 /\ hi = 1 /\ cap = 0 /\ unit = FALSE /\ l = 1

New == /\ l <= Len(Trace) /\ Ev.op = "New"
       /\ lo' = Ev.first /\ hi' = Ev.first /\ cap' = Ev.cap /\ unit' = Ev.unit /\ l' = l + 1

Call == /\ l <= Len(Trace) /\ Ev.op # "New"
        /\ ~Has(Ev, "crash")
        /\ LET a == RBig!BigApply(lo, hi, cap, CallOf(Ev))
           IN /\ IF unit THEN MatchesUnit(Ev, a.res) ELSE Matches(Ev, a.res)
              /\ unit \/ Ev.nz = a.hi - a.lo
              /\ lo' = a.lo /\ hi' = a.hi
        /\ cap' = cap /\ unit' = unit /\ l' = l + 1

Next == New \/ Call
Spec == Init /\ [][Next]_<<lo, hi, cap, unit, l>>
Accepted == AcceptByDiameter
=============================================================================
