----------------------------- MODULE RingBuffer -----------------------------
(* Contract of container.RingBuffer (property C14): a bounded FIFO queue.   *)
(* Only API-observable values appear here.  `hist` is the call/response     *)
(* history; it is excluded from the VIEW so the state graph stays finite.   *)
(* Apply(q, cap, call) is the single definition of the contract: it is used *)
(* by the actions below (spec -> code test generation), by RingImpl's        *)
(* refinement check and by RingTrace (code -> spec trace validation).        *)
EXTENDS Integers, Sequences, Emit

CONSTANTS Cap,      \* capacity (>= 0)
          Vals,     \* non-zero values that may be written
          MaxArg    \* ReadN/Skip/At arguments range over -1..MaxArg

VARIABLES q, hist

Min(a, b) == IF a < b THEN a ELSE b
Max(a, b) == IF a > b THEN a ELSE b
Take(s, n) == SubSeq(s, 1, n)
Drop(s, n) == SubSeq(s, n + 1, Len(s))
Moved(qq, n) == Min(Max(n, 0), Len(qq))

\* call is a record with field op and the argument (v, n or i).
\* The result is [q |-> queue after the call, res |-> reply record].
Apply(qq, cap, call) ==
    CASE call.op = "Write" ->
           IF Len(qq) = cap
           THEN [q |-> qq, res |-> [op |-> "Write", v |-> call.v, err |-> "exhausted"]]
           ELSE [q |-> Append(qq, call.v), res |-> [op |-> "Write", v |-> call.v, err |-> "nil"]]
      [] call.op = "Read" ->
           IF qq = <<>>
           THEN [q |-> qq, res |-> [op |-> "Read", v |-> 0, err |-> "eof"]]
           ELSE [q |-> Tail(qq), res |-> [op |-> "Read", v |-> Head(qq), err |-> "nil"]]
      [] call.op = "ReadN" ->
           LET k == Moved(qq, call.n)
           IN [q |-> Drop(qq, k), res |-> [op |-> "ReadN", n |-> call.n, k |-> k, vs |-> Take(qq, k)]]
      [] call.op = "Skip" ->
           LET k == Moved(qq, call.n)
           IN [q |-> Drop(qq, k), res |-> [op |-> "Skip", n |-> call.n, k |-> k]]
      [] call.op = "At" ->
           LET ok == call.i >= 0 /\ call.i < Len(qq)
           IN [q |-> qq, res |-> [op |-> "At", i |-> call.i, panic |-> ~ok,
                                  v |-> IF ok THEN qq[call.i + 1] ELSE 0]]
      [] call.op = "Clear" -> [q |-> <<>>, res |-> [op |-> "Clear"]]
      [] call.op = "Len"   -> [q |-> qq, res |-> [op |-> "Len", k |-> Len(qq)]]
      [] call.op = "Cap"   -> [q |-> qq, res |-> [op |-> "Cap", k |-> cap]]

Args == -1 .. MaxArg

Calls == {[op |-> "Write", v |-> v] : v \in Vals}
         \cup {[op |-> "Read"], [op |-> "Clear"], [op |-> "Len"], [op |-> "Cap"]}
         \cup {[op |-> "ReadN", n |-> n] : n \in 0 .. MaxArg}
         \cup {[op |-> "Skip", n |-> n] : n \in Args}
         \cup {[op |-> "At", i |-> i] : i \in Args}

Init == q = <<>> /\ hist = <<[op |-> "New", cap |-> Cap]>>

Do(call) == LET a == Apply(q, Cap, call)
            IN q' = a.q /\ hist' = Append(hist, a.res)

Next == \E call \in Calls : Do(call)

vars == <<q, hist>>
Spec == Init /\ [][Next]_vars

\* ---- what the property says, as invariants on the contract ------------------
Bounded == Len(q) <= Cap
View    == q
Emit    == EmitHist(hist')
=============================================================================
