------------------------------ MODULE RingImpl ------------------------------
(* Implementation-shaped model of container/ringbuffer.go: a slice of      *)
(* Cap+1 slots, read index r, write index w, and the two-segment loops of  *)
(* ReadN and Skip transcribed iteration by iteration.  TLC checks that it  *)
(* refines RingBuffer (same history of replies) and that every slot outside *)
(* the live window holds the zero value.                                     *)
EXTENDS Integers, Sequences, Emit

CONSTANTS Cap, Vals, MaxArg
VARIABLES buf,   \* function 0..Cap -> Vals \cup {0}
          r, w, hist

N == Cap + 1
Args == -1 .. MaxArg
Min(a, b) == IF a < b THEN a ELSE b

LenI(rr, ww) == IF rr <= ww THEN ww - rr ELSE N - (rr - ww)
LenOf == LenI(r, w)

\* abstraction function: the live window as a sequence, oldest first
Window(b, rr, ww) == [i \in 1 .. LenI(rr, ww) |-> b[(rr + i - 1) % N]]
AbsQ == Window(buf, r, w)

Init == /\ buf = [i \in 0 .. Cap |-> 0]
        /\ r = 0 /\ w = 0 /\ hist = <<[op |-> "New", cap |-> Cap]>>

Wrap(i) == IF i = N THEN 0 ELSE i

Write(v) ==
    IF LenOf = Cap
    THEN /\ UNCHANGED <<buf, r, w>>
         /\ hist' = Append(hist, [op |-> "Write", v |-> v, err |-> "exhausted"])
    ELSE /\ buf' = [buf EXCEPT ![w] = v]
         /\ w' = Wrap(w + 1)
         /\ r' = r
         /\ hist' = Append(hist, [op |-> "Write", v |-> v, err |-> "nil"])

Read ==
    IF LenOf = 0
    THEN /\ UNCHANGED <<buf, r, w>>
         /\ hist' = Append(hist, [op |-> "Read", v |-> 0, err |-> "eof"])
    ELSE /\ buf' = [buf EXCEPT ![r] = 0]
         /\ r' = Wrap(r + 1)
         /\ w' = w
         /\ hist' = Append(hist, [op |-> "Read", v |-> buf[r], err |-> "nil"])

\* ReadN loop: state of the loop is <<buffer, read index, remaining dst, output>>
RECURSIVE ReadNLoop(_, _, _, _)
ReadNLoop(b, rr, rem, out) ==
    IF rem > 0 /\ LenI(rr, w) > 0
    THEN LET endIdx == IF rr < w THEN w ELSE N
             cnt    == Min(rem, endIdx - rr)
             chunk  == [i \in 1 .. cnt |-> b[rr + i - 1]]
             b2     == [i \in 0 .. Cap |-> IF i >= rr /\ i < rr + cnt THEN 0 ELSE b[i]]
         IN  ReadNLoop(b2, Wrap(rr + cnt), rem - cnt, out \o chunk)
    ELSE <<b, rr, out>>

ReadN(n) ==
    /\ n >= 0
    /\ LET fin == ReadNLoop(buf, r, n, <<>>)
       IN /\ buf' = fin[1] /\ r' = fin[2] /\ w' = w
          /\ hist' = Append(hist, [op |-> "ReadN", n |-> n, k |-> Len(fin[3]), vs |-> fin[3]])

RECURSIVE SkipLoop(_, _, _, _)
SkipLoop(b, rr, n, res) ==
    IF n > 0 /\ LenI(rr, w) > 0
    THEN LET n2     == IF n > LenI(rr, w) THEN LenI(rr, w) ELSE n
             endIdx == IF rr + n2 >= N THEN N ELSE rr + n2
             cnt    == endIdx - rr
             b2     == [i \in 0 .. Cap |-> IF i >= rr /\ i < endIdx THEN 0 ELSE b[i]]
         IN  SkipLoop(b2, Wrap(endIdx), n2 - cnt, res + cnt)
    ELSE <<b, rr, res>>

Skip(n) ==
    LET fin == SkipLoop(buf, r, n, 0)
    IN /\ buf' = fin[1] /\ r' = fin[2] /\ w' = w
       /\ hist' = Append(hist, [op |-> "Skip", n |-> n, k |-> fin[3]])

At(i) ==
    /\ UNCHANGED <<buf, r, w>>
    /\ IF i < 0 \/ i >= LenOf
       THEN hist' = Append(hist, [op |-> "At", i |-> i, panic |-> TRUE, v |-> 0])
       ELSE LET d == IF r + i >= N THEN N ELSE 0
            IN hist' = Append(hist, [op |-> "At", i |-> i, panic |-> FALSE, v |-> buf[r + i - d]])

Clear ==
    LET fin == SkipLoop(buf, r, LenOf, 0)
    IN /\ buf' = fin[1] /\ r' = fin[2] /\ w' = w
       /\ hist' = Append(hist, [op |-> "Clear"])

LenOp == UNCHANGED <<buf, r, w>> /\ hist' = Append(hist, [op |-> "Len", k |-> LenOf])
CapOp == UNCHANGED <<buf, r, w>> /\ hist' = Append(hist, [op |-> "Cap", k |-> N - 1])

Next == \/ \E v \in Vals : Write(v)
        \/ Read
        \/ \E n \in Args : ReadN(n) \/ Skip(n) \/ At(n)
        \/ Clear \/ LenOp \/ CapOp

vars == <<buf, r, w, hist>>
Spec == Init /\ [][Next]_vars

\* ---- refinement: the contract, instantiated on the abstraction ------------
Abs == INSTANCE RingBuffer WITH q <- AbsQ
Refines == Abs!Spec

\* ---- invariants -----------------------------------------------------------
IndexOK    == r \in 0 .. Cap /\ w \in 0 .. Cap
Bounded    == LenOf <= Cap
\* consumed slots no longer reference the consumed values
ZeroOutside == \A i \in 0 .. Cap :
                  (\A j \in 0 .. LenOf - 1 : (r + j) % N # i) => buf[i] = 0
View == <<buf, r, w>>
Emit == EmitHist(hist')
=============================================================================
