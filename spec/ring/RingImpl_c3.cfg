SPECIFICATION Spec
CONSTANTS
  Cap = 3
  Vals = {1, 2}
  MaxArg = 5
INVARIANTS IndexOK Bounded ZeroOutside
PROPERTY Refines
VIEW View
ACTION_CONSTRAINT Emit
CHECK_DEADLOCK FALSE
