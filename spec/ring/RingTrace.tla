------------------------------ MODULE RingTrace ------------------------------
(* Trace validation for C14 (code -> spec): every line of the trace is one   *)
(* real call with its real reply; a line is consumed only if the reply is     *)
(* exactly what RingBuffer!Apply prescribes for the current abstract queue.   *)
(* "New" lines start a fresh buffer (many traces are concatenated).           *)
(* The field nz (number of non-zero slots of the real backing array) must     *)
(* equal the abstract length: consumed slots reference nothing.               *)
EXTENDS TraceLib

VARIABLES q, cap, l

RB == INSTANCE RingBuffer WITH Cap <- 0, Vals <- {}, MaxArg <- 0, hist <- <<>>

Ev == Trace[l]

CallOf(e) ==
    CASE e.op = "Write" -> [op |-> "Write", v |-> e.v]
      [] e.op = "ReadN" -> [op |-> "ReadN", n |-> e.n]
      [] e.op = "Skip"  -> [op |-> "Skip", n |-> e.n]
      [] e.op = "At"    -> [op |-> "At", i |-> e.i]
      [] OTHER          -> [op |-> e.op]

Matches(e, res) == \A f \in DOMAIN res : Has(e, f) /\ e[f] = res[f]

Init == q = <<>> /\ cap = 0 /\ l = 1

New == /\ l <= Len(Trace) /\ Ev.op = "New"
       /\ q' = <<>> /\ cap' = Ev.cap /\ l' = l + 1

Call == /\ l <= Len(Trace) /\ Ev.op # "New"
        /\ ~Has(Ev, "crash")
        /\ LET a == RB!Apply(q, cap, CallOf(Ev))
           IN /\ Matches(Ev, a.res)
              /\ Ev.nz = Len(a.q)
              /\ q' = a.q
        /\ cap' = cap /\ l' = l + 1

Next == New \/ Call
Spec == Init /\ [][Next]_<<q, cap, l>>
Accepted == AcceptByDiameter
=============================================================================
