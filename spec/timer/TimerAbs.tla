------------------------------ MODULE TimerAbs ------------------------------
(* Timed CONTRACT of package timeout (properties C12 and C13).               *)
(*                                                                           *)
(* The contract speaks about what a user of the package can observe: the     *)
(* instant Call was invoked, the instant a scheduled function began to run,  *)
(* the instant a Cancel returned, and - for the wind-down clause of C13 -    *)
(* the number of background goroutines of the package.  All instants are     *)
(* stamps of ONE monotonic clock (microseconds; in the model: ticks).  The   *)
(* stamps are taken by the observer, outside the package's lock, so every    *)
(* clause is one-sided: it only forbids what no scheduling of a correct      *)
(* package can produce.                                                      *)
(*                                                                           *)
(*   Call(i, tb, ta, d)  Call(f_i, d) was invoked after stamp tb and had     *)
(*                       returned before stamp ta.                           *)
(*   Start(i, t)         f_i began to run; t was taken as its first          *)
(*                       statement.                                          *)
(*   CancelRet(i, t)     a Cancel() of future i returned before stamp t.     *)
(*   Quiesce(t)          the observer decided to wait no longer.             *)
(*   Idle(t, w, quiet)   w background goroutines were alive `quiet` after    *)
(*                       the last activity.                                  *)
(*   Sample(w)           the largest number of background goroutines seen.   *)
(*                                                                           *)
(* C12  never early        Start(i,t) needs t >= tb[i] + d   (due[i])        *)
(*      at most once       Start(i,_) happens at most once                   *)
(*      cancel effective   no Start(i,_) if some Cancel of i RETURNED before *)
(*                         due[i].  A Cancel that returns at or after due[i] *)
(*                         promises nothing (the function may already have   *)
(*                         been taken off the queue) - both outcomes legal.  *)
(*      cancel precise     cancelling j never removes i # j: every future    *)
(*                         that was never cancelled is started (Quiesce).    *)
(* C13  liveness           as "cancel precise": at Quiesce every future that *)
(*                         was never cancelled and whose reference time      *)
(*                         ta[i]+d lies at least cfg.Q in the past has       *)
(*                         started;                                          *)
(*      bounded lateness   Start(i,t) has t - (ta[i]+d) <= cfg.L  (only in   *)
(*                         runs with prompt callbacks: cfg.late)             *)
(*      wind-down          Idle: nothing pending and quiet >= 2*idle+slack   *)
(*                         implies w = 0;  a Call after that is started      *)
(*                         again (Quiesce clause)                            *)
(*      pool limit         Sample(w): w <= cfg.maxw                          *)
(*                                                                           *)
(* The same action definitions are used by TimerTrace.tla (arguments bound   *)
(* from a trace recorded on the real package) and by the refinement check of *)
(* TimerImpl.tla (arguments quantified, see Next).                           *)
EXTENDS Integers, FiniteSets, TLC

CONSTANTS Ids,        \* future identifiers         } only Next (the refinement
          Stamps,     \* stamps                     } check) quantifies over
          DelaySet    \* delays                     } these three sets

VARIABLES due,        \* function: called future -> tb + d, the earliest legal start
          ref,        \* function: called future -> ta + d, reference of lateness / quiescence
          started,    \* futures whose function began to run
          cancelled,  \* futures with at least one returned Cancel
          intime,     \* futures with a Cancel that returned BEFORE due
          cfg         \* observation parameters: [late, L, Q, idle, slack, maxw]

avars == <<due, ref, started, cancelled, intime, cfg>>

Called == DOMAIN due

\* A new observation period: nothing is known (many executions are concatenated in one trace file).
Begin(c) ==
    /\ due' = <<>> /\ ref' = <<>>
    /\ started' = {} /\ cancelled' = {} /\ intime' = {}
    /\ cfg' = c

Call(i, tb, ta, d) ==
    /\ i \notin Called
    /\ tb <= ta
    /\ due' = (i :> (tb + d)) @@ due
    /\ ref' = (i :> (ta + d)) @@ ref
    /\ UNCHANGED <<started, cancelled, intime, cfg>>

NeverEarly(i, t)    == t >= due[i]
AtMostOnce(i)       == i \notin started
CancelEffective(i)  == i \notin intime
NotTooLate(i, t)    == cfg.late => t - ref[i] <= cfg.L
\* ORDER (single-worker executions in which every Cancel returned before anything was due; cfg.gap > 0 switches it on):
\* when i is started (so it is due), no live future whose time lies more than cfg.gap BEFORE i's is still waiting - a
\* queue that loses its order shows here whatever the load of the host, since one worker takes futures in queue order
InOrder(i)          == cfg.gap > 0 =>
                         \A j \in (DOMAIN due) \ (started \cup cancelled) : j # i => ~(ref[j] + cfg.gap <= due[i])

Start(i, t) ==
    /\ i \in Called
    /\ NeverEarly(i, t)
    /\ AtMostOnce(i)
    /\ CancelEffective(i)
    /\ NotTooLate(i, t)
    /\ InOrder(i)
    /\ started' = started \cup {i}
    /\ UNCHANGED <<due, ref, cancelled, intime, cfg>>

CancelRet(i, t) ==
    /\ i \in Called
    /\ cancelled' = cancelled \cup {i}
    /\ IF t < due[i]
       THEN /\ i \notin started      \* (it would have been early anyway)
            /\ intime' = intime \cup {i}
       ELSE intime' = intime
    /\ UNCHANGED <<due, ref, started, cfg>>

\* Every future nobody ever cancelled must have started once its reference time is cfg.Q in the past.
\* This is both "cancel of j removed only j" (C12) and "every live future fires" (C13).
Live == Called \ cancelled
Quiesce(t) ==
    /\ \A i \in Live : (t >= ref[i] + cfg.Q) => i \in started
    /\ UNCHANGED avars

NothingPending == Called \subseteq (started \cup cancelled)
Idle(t, w, quiet) ==
    /\ (NothingPending /\ quiet >= 2 * cfg.idle + cfg.slack) => w = 0
    /\ UNCHANGED avars

Sample(w) ==
    /\ w >= 0 /\ w <= cfg.maxw
    /\ UNCHANGED avars

\* ---- the contract as a state machine (used as the refinement target of TimerImpl) ----------------
Init == /\ due = <<>> /\ ref = <<>> /\ started = {} /\ cancelled = {} /\ intime = {}
        /\ cfg \in [late : BOOLEAN, L : Int, Q : Int, idle : Int, slack : Int, maxw : Int, gap : Int]

NextAt(t) == \E i \in Ids :
                \/ \E d \in DelaySet : Call(i, t, t, d)
                \/ Start(i, t)
                \/ CancelRet(i, t)
Next == \E t \in Stamps : NextAt(t)

Spec == Init /\ [][Next]_avars

\* ---- consequences (checked on the refinement image by TimerImpl's configs) ------------------------
TypeOK == /\ started \subseteq Called /\ cancelled \subseteq Called /\ intime \subseteq cancelled
InTimeNeverStarted == intime \cap started = {}
=============================================================================
