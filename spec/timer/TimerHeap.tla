------------------------------ MODULE TimerHeap ------------------------------
(* Array-level model of the futures heap of timeout/timeout.go: the slice      *)
(* `futures`, each future's `idx`, the methods Less/Swap/Push/Pop of the       *)
(* heap.Interface implementation (timeout.go:204-232) and the algorithms       *)
(* heap.Push / heap.Pop / heap.Remove of container/heap (up / down),           *)
(* transcribed statement by statement.                                         *)
(*                                                                             *)
(* TLC checks on every reachable heap shape that                               *)
(*   - every element knows its own position (`arr[idx[f]] = f`, idx = -1       *)
(*     exactly for futures that are not in the heap),                          *)
(*   - the heap order holds,                                                   *)
(*   - Push adds exactly the given future, heap.Pop removes and returns a      *)
(*     future with minimal key, and cancel(f) = `if idx<0 return;              *)
(*     heap.Remove(idx)` removes exactly f - from the front, the middle and    *)
(*     the back of the array, when repeated, and after f was popped -,         *)
(* i.e. that the array refines the SET used by TimerImpl.tla.                  *)
(*                                                                             *)
(* Keys are absolute fire times in ticks.  As in reality, pops happen in time  *)
(* order (`lastPop` = the model's clock) and a future is only pushed with a    *)
(* key >= lastPop.  `hist` is the script for the harness (same language as     *)
(* TimerImpl: call with delay relative to the script clock, cancel, tick).     *)
EXTENDS Integers, Sequences, FiniteSets, Emit

CONSTANTS NF,      \* futures 1..NF, pushed in this order
          Keys     \* fire times (ticks)

VARIABLES arr,     \* the slice, as a sequence of future ids (arr[p+1] is Go's (*fs)[p])
          idx,     \* idx[f]: position (0-based) or -1
          key,     \* key[f]: fireT
          nc,      \* futures 1..nc were pushed
          popped,  \* futures returned by heap.Pop
          removed, \* futures removed by cancel
          lastPop, \* key of the latest pop (the clock of the script)
          hist

vars == <<arr, idx, key, nc, popped, removed, lastPop, hist>>
Fut == 1 .. NF

\* ---- the heap.Interface methods --------------------------------------------------
\* a heap value h is a record [a |-> the slice, x |-> the idx fields, k |-> the fireT fields]
At(h, p) == h.a[p + 1]
LenH(h)  == Len(h.a)
Less(h, i, j) == h.k[At(h, i)] < h.k[At(h, j)]                \* fi.fireT.Before(fj.fireT)
Swap(h, i, j) ==                                               \* swap the slots, then the idx fields
    LET fi == At(h, i)
        fj == At(h, j)
    IN [h EXCEPT !.a = [h.a EXCEPT ![i + 1] = fj, ![j + 1] = fi],
                 !.x = [h.x EXCEPT ![fj] = i, ![fi] = j]]
PushM(h, f) == [h EXCEPT !.a = Append(h.a, f), !.x = [h.x EXCEPT ![f] = LenH(h)]]   \* fu.idx = fs.Len(); append
PopM(h) ==                                                                   \* drop the last slot; res.idx = -1
    LET last == At(h, LenH(h) - 1)
    IN [h |-> [h EXCEPT !.a = SubSeq(h.a, 1, LenH(h) - 1), !.x = [h.x EXCEPT ![last] = 0 - 1]], res |-> last]

\* ---- container/heap ---------------------------------------------------------------
RECURSIVE Up(_, _)
Up(h, j) ==
    LET i == IF j = 0 THEN 0 ELSE (j - 1) \div 2              \* parent; Go: (0-1)/2 = 0
    IN IF i = j \/ ~Less(h, j, i) THEN h ELSE Up(Swap(h, i, j), i)

RECURSIVE Down(_, _, _)
Down(h, i, n) ==                                                \* returns [h, i]: final heap and position
    LET j1 == 2 * i + 1
    IN IF j1 >= n THEN [h |-> h, i |-> i]
       ELSE LET j2 == j1 + 1
                j  == IF j2 < n /\ Less(h, j2, j1) THEN j2 ELSE j1
            IN IF ~Less(h, j, i) THEN [h |-> h, i |-> i]
               ELSE Down(Swap(h, i, j), j, n)

HeapPush(h, f) == Up(PushM(h, f), LenH(h))                      \* h.Push(x); up(h, h.Len()-1)
HeapPop(h) ==                                                   \* n := Len-1; Swap(0,n); down(0,n); h.Pop()
    LET n == LenH(h) - 1
    IN PopM(Down(Swap(h, 0, n), 0, n).h)
HeapRemove(h, i) ==                                             \* n := Len-1; if n != i {Swap(i,n); if !down(i,n) {up(i)}}; h.Pop()
    LET n == LenH(h) - 1
    IN IF n # i
       THEN LET s == Swap(h, i, n)
                d == Down(s, i, n)
            IN PopM(IF d.i > i THEN d.h ELSE Up(d.h, i))
       ELSE PopM(h)

H == [a |-> arr, x |-> idx, k |-> key]
InHeap == {arr[p] : p \in 1 .. Len(arr)}
MinKey == CHOOSE m \in {key[f] : f \in InHeap} : \A f \in InHeap : m <= key[f]

Init == /\ arr = <<>> /\ idx = [f \in Fut |-> 0 - 1] /\ key = [f \in Fut |-> 0]
        /\ nc = 0 /\ popped = {} /\ removed = {} /\ lastPop = 0 /\ hist = <<>>

\* Call(): fu.idx = -1; add(): heap.Push
Push(k) ==
    /\ nc < NF /\ k >= lastPop
    /\ LET f == nc + 1 IN
       /\ nc' = f
       /\ key' = [key EXCEPT ![f] = k]
       /\ LET h2 == HeapPush([H EXCEPT !.k = key'], f)         \* fu.fireT is set before add()
          IN arr' = h2.a /\ idx' = h2.x
       /\ hist' = Append(hist, [op |-> "call", i |-> f, d |-> k - lastPop])
    /\ UNCHANGED <<popped, removed, lastPop>>

\* watcher(): the head is due -> heap.Pop
PopMin ==
    /\ arr # <<>>
    /\ LET r == HeapPop(H) IN
       /\ arr' = r.h.a /\ idx' = r.h.x
       /\ popped' = popped \cup {r.res}
       /\ lastPop' = key[r.res]
       /\ hist' = IF key[r.res] > lastPop
                  THEN Append(hist, [op |-> "tick", n |-> key[r.res] - lastPop])
                  ELSE hist
    /\ UNCHANGED <<key, nc, removed>>

\* cancel(): if fu.idx < 0 { return }; heap.Remove(cc.futures, fu.idx)
Cancel(f) ==
    /\ f <= nc
    /\ IF idx[f] < 0
       THEN UNCHANGED <<arr, idx, removed>>
       ELSE LET r == HeapRemove(H, idx[f]) IN
            /\ arr' = r.h.a /\ idx' = r.h.x
            /\ removed' = removed \cup {r.res}
    /\ hist' = Append(hist, [op |-> "cancel", i |-> f])
    /\ UNCHANGED <<key, nc, popped, lastPop>>

Next == (\E k \in Keys : Push(k)) \/ PopMin \/ (\E f \in Fut : Cancel(f))
Spec == Init /\ [][Next]_vars

\* ---- invariants --------------------------------------------------------------------
\* every future in the slice knows its position; every other future has idx = -1
IndexOK == /\ \A p \in 1 .. Len(arr) : idx[arr[p]] = p - 1
           /\ \A f \in Fut : f \notin InHeap => idx[f] = 0 - 1
NoDup     == Cardinality(InHeap) = Len(arr)
HeapOrder == \A p \in 2 .. Len(arr) : key[arr[p \div 2]] <= key[arr[p]]     \* parent of 0-based j is (j-1)/2
\* the array is exactly the set TimerImpl works with
SetOK     == InHeap = (1 .. nc) \ (popped \cup removed) /\ popped \cap removed = {}

\* ---- action properties: each operation changes the SET exactly as TimerImpl assumes --
PushExact   == [][nc' = nc + 1 => InHeap' = InHeap \cup {nc + 1}]_vars
PopExact    == [][popped' # popped =>
                    \E f \in InHeap : /\ key[f] = MinKey /\ popped' = popped \cup {f}
                                      /\ InHeap' = InHeap \ {f}]_vars
CancelExact == [][\A f \in Fut : (hist' # hist /\ hist'[Len(hist')] = [op |-> "cancel", i |-> f]) =>
                    /\ InHeap' = InHeap \ {f}
                    /\ removed' = IF f \in InHeap THEN removed \cup {f} ELSE removed]_vars

View == <<arr, idx, key, nc, popped, removed, lastPop>>
Emit == EmitHist(hist')
\* simulation mode: only the script of the complete random behaviour
EmitLast == IF "VERIF_EMIT_MINLEN" \in DOMAIN IOEnv /\ TLCGet("level") + 1 < atoi(IOEnv.VERIF_EMIT_MINLEN)
            THEN TRUE ELSE EmitHist(hist')
=============================================================================
