------------------------------ MODULE TimerImpl ------------------------------
(* Implementation-shaped model of timeout/timeout.go at the level of the       *)
(* worker pool (the heap is a SET here; its array/index mechanics are the      *)
(* separate module TimerHeap.tla).                                             *)
(*                                                                             *)
(* One action per critical section / blocking point of the Go code:            *)
(*                                                                             *)
(*   Call(d)      Call(): fireT = now + d; add(): lock { heap.Push; if         *)
(*                watchers = 0 { watchers++; go watcher() } else notify }      *)
(*   Cancel(i)    cancel(): lock { if idx < 0 return; heap.Remove(idx);        *)
(*                if watchers > 0 notify }                                     *)
(*   notify       non-blocking send on wakeCh (buffered, capacity TokCap)      *)
(*   Crit(w)      the locked section of watcher(): empty heap -> exit after    *)
(*                two idle rounds or sleep idleTimeout; head due -> Pop (and   *)
(*                spawn a worker if the next head is due too and               *)
(*                watchers < maxWorkers); head not due -> sleep until it is    *)
(*                (capped by idleTimeout / exit when other workers exist)      *)
(*   Run(w)       f() outside the lock; misCount = 0                           *)
(*   TimerFire(w) <-tmr.C ; misCount++ at the loop top                         *)
(*   Wake(w)      <-wakeCh ; misCount = 0, then ++ at the loop top             *)
(*   Tick         the clock.  MAXIMAL PROGRESS: time passes only when no       *)
(*                worker step is enabled (workers are infinitely fast          *)
(*                compared with a tick); a timer armed for deadline dl fires   *)
(*                when now > dl and a future is due when now > fireT, exactly  *)
(*                as `now.After(fireT)` - so every wake-up is one tick late    *)
(*                in the model and "lateness <= 1 tick" is the model's form of *)
(*                "small bounded lateness".                                    *)
(*                                                                             *)
(* Calls and Cancels may happen at any instant, between any two worker steps:  *)
(* TLC explores every interleaving inside the bound.  Time only passes while   *)
(* a worker is alive (with no worker and an empty heap the package has no      *)
(* time-dependent state at all), which keeps the state space finite without a  *)
(* state constraint: the liveness configuration uses none.                     *)
(*                                                                             *)
(* `hist` is the environment's script (calls with delay class, cancels, ticks, *)
(* "idle" = the pool wound down to zero); it is excluded from the VIEW and is  *)
(* what the harness replays on the real package with real time (KeepHist =     *)
(* FALSE switches it off for the liveness configuration, which has no VIEW).   *)
(* The VIEW also abstracts from absolute time (see View), which is sound       *)
(* because no action looks at `now` except relative to fireT / dl.             *)
EXTENDS Integers, FiniteSets, Sequences, Emit

CONSTANTS NF,       \* number of futures the environment may schedule
          Delays,   \* delay classes in ticks (negative = already due at Call)
          MaxW,     \* maxWorkers
          IdleT,    \* idleTimeout in ticks
          TokCap,   \* capacity of wakeCh
          MaxT,     \* clock bound (never reached in the liveness configuration)
          KeepHist, \* FALSE: hist stays empty (liveness configuration: no VIEW, finite state space)
          Variant   \* "code": the package as it is.  Wrong variants that TLC must REJECT (they show which atomicity /
                    \* notification the properties rest on; thorough tier of C13):
                    \*   "lateDecrement"  a retiring worker decides to leave under the lock but decrements
                    \*                    cc.watchers in a later critical section (a Call in between counts it as alive)
                    \*   "quietCancel"    cancel() notifies only when something is left in the queue
                    \*   "rendezvous"     the wake channel is unbuffered (see Notify)

VARIABLES now,        \* the clock
          nc,         \* futures 1..nc have been scheduled
          fireT,      \* fireT[i]
          heap,       \* cc.futures as a set of future ids
          watchers,   \* cc.watchers
          tokens,     \* len(cc.wakeCh)
          pc,         \* per worker slot: "dead" | "crit" | "run" | "sleep"
          mis,        \* misCount (capped at 2: only `> 1` is ever tested)
          dl,         \* deadline of the worker's time.Timer while asleep
          cur,        \* the future whose f the worker holds while pc = "run"
          started,    \* futures whose function ran
          cancelled,  \* futures on which Cancel was called
          intime,     \* ... while now < fireT  (history variable for the contract)
          hist        \* the environment script so far (not in the VIEW)

vars == <<now, nc, fireT, heap, watchers, tokens, pc, mis, dl, cur, started, cancelled, intime, hist>>

Fut == 1 .. NF
W   == 1 .. MaxW
Min2(a, b) == IF a < b THEN a ELSE b
MinFireOf(h) == CHOOSE m \in {fireT[i] : i \in h} : \A i \in h : m <= fireT[i]
MinFire == MinFireOf(heap)
Heads   == {i \in heap : fireT[i] = MinFire}     \* the heap may return any minimal element
Dead    == {w \in W : pc[w] = "dead"}
LowestDead == CHOOSE w \in Dead : \A v \in Dead : w <= v

Init == /\ now = 0 /\ nc = 0 /\ fireT = [i \in Fut |-> 0] /\ heap = {}
        /\ watchers = 0 /\ tokens = 0
        /\ pc = [w \in W |-> "dead"] /\ mis = [w \in W |-> 0]
        /\ dl = [w \in W |-> 0] /\ cur = [w \in W |-> 0]
        /\ started = {} /\ cancelled = {} /\ intime = {}
        /\ hist = <<>>

\* wrong variant "rendezvous": the wake channel has no buffer - a notification is delivered only to a worker that is
\* blocked in its select at that very moment (it becomes a token that worker takes at once), otherwise it is dropped
Asleep == {w \in W : pc[w] = "sleep"}
Notify == tokens' = IF Variant = "rendezvous"
                    THEN (IF Asleep # {} THEN Min2(tokens + 1, Cardinality(Asleep)) ELSE tokens)
                    ELSE Min2(tokens + 1, TokCap)
Log(e) == hist' = IF KeepHist THEN Append(hist, e) ELSE hist

\* ------------------------------------------------------------------ environment
Call(d) ==
    /\ nc < NF
    /\ LET i == nc + 1 IN
       /\ nc' = i
       /\ fireT' = [fireT EXCEPT ![i] = now + d]
       /\ heap' = heap \cup {i}
       /\ IF watchers = 0
          THEN /\ watchers' = 1
               /\ pc' = [pc EXCEPT ![LowestDead] = "crit"]
               /\ mis' = [mis EXCEPT ![LowestDead] = 1]     \* first loop round: f = nil -> misCount++
               /\ tokens' = tokens
          ELSE /\ Notify
               /\ UNCHANGED <<watchers, pc, mis>>
       /\ Log([op |-> "call", i |-> i, d |-> d])
    /\ UNCHANGED <<now, dl, cur, started, cancelled, intime>>

Cancel(i) ==
    /\ i <= nc
    /\ cancelled' = cancelled \cup {i}
    /\ intime' = IF now < fireT[i] THEN intime \cup {i} ELSE intime
    /\ IF i \in heap
       THEN /\ heap' = heap \ {i}
            /\ IF watchers > 0 /\ (Variant # "quietCancel" \/ heap' # {})
               THEN Notify ELSE tokens' = tokens            \* (watchers = 0 is dead code: heap # {} => watchers > 0)
       ELSE UNCHANGED <<heap, tokens>>                       \* idx < 0: nothing at all
    /\ Log([op |-> "cancel", i |-> i])
    /\ UNCHANGED <<now, nc, fireT, watchers, pc, mis, dl, cur, started>>

\* ---------------------------------------------------------------------- workers
Exit(w) ==
    IF Variant = "lateDecrement"
    THEN /\ pc' = [pc EXCEPT ![w] = "leaving"]          \* gone for every purpose but the count
         /\ UNCHANGED <<watchers, mis, heap, dl, cur, hist>>
    ELSE /\ watchers' = watchers - 1
         /\ pc' = [pc EXCEPT ![w] = "dead"]
         /\ mis' = [mis EXCEPT ![w] = 0]
         /\ IF watchers = 1 THEN Log([op |-> "idle"]) ELSE hist' = hist
         /\ UNCHANGED <<heap, dl, cur>>

\* wrong variant only: the deferred decrement, a critical section of its own
Leave(w) ==
    /\ pc[w] = "leaving"
    /\ watchers' = watchers - 1
    /\ pc' = [pc EXCEPT ![w] = "dead"]
    /\ mis' = [mis EXCEPT ![w] = 0]
    /\ IF watchers = 1 THEN Log([op |-> "idle"]) ELSE hist' = hist
    /\ UNCHANGED <<now, nc, fireT, heap, tokens, dl, cur, started, cancelled, intime>>

\* the worker has decided to sleep and armed its timer; it releases the lock ("dozing") and only then blocks in the
\* select ("sleep", action Doze): a Call or Cancel may notify in between - with the buffered wake channel of the code
\* the token simply waits in the buffer
Sleep(w, tmt) ==
    /\ pc' = [pc EXCEPT ![w] = "dozing"]
    /\ dl' = [dl EXCEPT ![w] = now + tmt]
    /\ UNCHANGED <<heap, watchers, mis, cur, hist>>

Pop(w, i) ==
    /\ heap' = heap \ {i}
    /\ cur' = [cur EXCEPT ![w] = i]
    /\ IF heap' # {} /\ now > MinFireOf(heap') /\ watchers < MaxW
       THEN \* spawn new worker if there is a job to do
            /\ watchers' = watchers + 1
            /\ pc' = [pc EXCEPT ![w] = "run", ![LowestDead] = "crit"]
            /\ mis' = [mis EXCEPT ![LowestDead] = 1]
       ELSE /\ pc' = [pc EXCEPT ![w] = "run"]
            /\ UNCHANGED <<watchers, mis>>
    /\ UNCHANGED <<dl, hist>>

Crit(w) ==
    /\ pc[w] = "crit"
    /\ IF heap = {}
       THEN IF mis[w] > 1 THEN Exit(w) ELSE Sleep(w, IdleT)
       ELSE IF now > MinFire
            THEN \E i \in Heads : Pop(w, i)
            ELSE LET tmt == MinFire - now IN
                 IF watchers > 1
                 THEN IF mis[w] > 1 THEN Exit(w) ELSE Sleep(w, Min2(tmt, IdleT))
                 ELSE Sleep(w, tmt)
    /\ UNCHANGED <<now, nc, fireT, tokens, started, cancelled, intime>>

Doze(w) ==
    /\ pc[w] = "dozing"
    /\ pc' = [pc EXCEPT ![w] = "sleep"]
    /\ UNCHANGED <<now, nc, fireT, heap, watchers, tokens, mis, dl, cur, started, cancelled, intime, hist>>

Run(w) ==
    /\ pc[w] = "run"
    /\ started' = started \cup {cur[w]}
    /\ pc' = [pc EXCEPT ![w] = "crit"]
    /\ mis' = [mis EXCEPT ![w] = 0]
    /\ cur' = [cur EXCEPT ![w] = 0]
    /\ UNCHANGED <<now, nc, fireT, heap, watchers, tokens, dl, cancelled, intime, hist>>

TimerFire(w) ==
    /\ pc[w] = "sleep" /\ now > dl[w]
    /\ pc' = [pc EXCEPT ![w] = "crit"]
    /\ mis' = [mis EXCEPT ![w] = Min2(mis[w] + 1, 2)]
    /\ dl' = [dl EXCEPT ![w] = 0]
    /\ UNCHANGED <<now, nc, fireT, heap, watchers, tokens, cur, started, cancelled, intime, hist>>

Wake(w) ==
    /\ pc[w] = "sleep" /\ tokens > 0
    /\ tokens' = tokens - 1
    /\ pc' = [pc EXCEPT ![w] = "crit"]
    /\ mis' = [mis EXCEPT ![w] = 1]            \* misCount = 0, then ++ at the loop top
    /\ dl' = [dl EXCEPT ![w] = 0]
    /\ UNCHANGED <<now, nc, fireT, heap, watchers, cur, started, cancelled, intime, hist>>

WorkerStep(w) == Crit(w) \/ Doze(w) \/ Run(w) \/ TimerFire(w) \/ Wake(w) \/ Leave(w)
WorkerEnabled(w) == \/ pc[w] \in {"crit", "run", "leaving", "dozing"}
                    \/ pc[w] = "sleep" /\ (now > dl[w] \/ tokens > 0)

Tick ==
    /\ \A w \in W : ~WorkerEnabled(w)
    /\ watchers > 0
    /\ now < MaxT
    /\ now' = now + 1
    /\ Log([op |-> "tick"])
    /\ UNCHANGED <<nc, fireT, heap, watchers, tokens, pc, mis, dl, cur, started, cancelled, intime>>

Next == \/ \E d \in Delays : Call(d)
        \/ \E i \in Fut : Cancel(i)
        \/ \E w \in W : WorkerStep(w)
        \/ Tick

Spec == Init /\ [][Next]_vars
FairSpec == Spec /\ WF_vars(Tick) /\ \A w \in W : WF_vars(WorkerStep(w))

\* ------------------------------------------------------------------- invariants
TypeOK == /\ now \in 0 .. MaxT /\ nc \in 0 .. NF /\ heap \subseteq 1 .. nc
          /\ watchers \in 0 .. MaxW /\ tokens \in 0 .. TokCap
          /\ \A w \in W : pc[w] \in {"dead", "crit", "run", "sleep", "leaving", "dozing"} /\ mis[w] \in 0 .. 2
          /\ started \subseteq 1 .. nc /\ intime \subseteq cancelled /\ cancelled \subseteq 1 .. nc

\* cc.watchers is exactly the number of live watcher goroutines
WatchersCount == watchers = Cardinality({w \in W : pc[w] # "dead"})

\* a function is handed to a worker only strictly after its fire time, and only once
NeverEarly  == \A w \in W : pc[w] = "run" => now > fireT[cur[w]]
AtMostOnce  == /\ \A w \in W : pc[w] = "run" => cur[w] \notin started /\ cur[w] \notin heap
               /\ \A w, v \in W : (w # v /\ pc[w] = "run" /\ pc[v] = "run") => cur[w] # cur[v]
\* a future cancelled before it was due never runs
CancelEffective == \A i \in intime : i \notin started /\ \A w \in W : pc[w] = "run" => cur[w] # i

\* NO LOST WAKE-UP: whenever something is pending, some live worker will look at the heap no later
\* than the earliest fire time: it is awake, or its timer is armed for a deadline <= the earliest fire
\* time, or a wake token is waiting for a sleeping worker.  (This is why add() must notify when a
\* short delay is scheduled while the dispatcher sleeps towards a distant one.)
NoLostWakeup ==
    heap # {} =>
        \/ \E w \in W : pc[w] \in {"crit", "run"}
        \/ \E w \in W : pc[w] \in {"sleep", "dozing"} /\ dl[w] <= MinFire
        \/ tokens > 0 /\ \E w \in W : pc[w] \in {"sleep", "dozing"}

\* WIND-DOWN IS ARMED: with nothing pending no worker sleeps towards a distant deadline - its timer is set to at most
\* the idle time-out, or a wake token is on its way (this is why cancel() must notify even when it empties the queue)
WindDownArmed ==
    heap = {} => \A w \in W : pc[w] \in {"sleep", "dozing"} => (dl[w] - now <= IdleT \/ tokens > 0)

\* consequence: with prompt callbacks nothing pending is ever more than one tick overdue
LatenessOneTick == \A i \in heap : now <= fireT[i] + 1

\* nothing is lost: every scheduled future is pending, running, started or was cancelled
Conservation == \A i \in 1 .. nc : \/ i \in heap \/ i \in started \/ i \in cancelled
                                   \/ \E w \in W : pc[w] = "run" /\ cur[w] = i

ClockNotBinding == now < MaxT      \* (liveness configuration: MaxT is never reached)

\* ------------------------------------------------------------ action properties
\* an element leaves the heap only because exactly it was cancelled, or because it was due and a
\* worker took it; a Cancel step removes nothing but its own future
HeapLeavers == [][\A i \in heap \ heap' :
                     \/ i \in cancelled' /\ heap' = heap \ {i} /\ cancelled' \ cancelled \subseteq {i}
                     \/ now > fireT[i] /\ \E w \in W : cur'[w] = i]_vars
\* the pool starts up again: a Call that finds no worker leaves one behind
Restart == [][(watchers = 0 /\ nc' = nc + 1) => watchers' = 1]_vars

\* --------------------------------------------------------------------- liveness
Fires    == \A i \in Fut : (i \in heap /\ i \notin cancelled) ~> (i \in started \/ i \in cancelled)
WindDown == (heap = {}) ~> (watchers = 0)

\* ------------------------------------------------- refinement: TimerImpl => TimerAbs
\* stamps are the model clock; Call is instantaneous (tb = ta = now); callbacks are prompt, so the
\* lateness clause is on, with L = 1 tick.
AbsCfg == [late |-> TRUE, L |-> 1, Q |-> 2, idle |-> IdleT, slack |-> 3, maxw |-> MaxW, gap |-> 0]
Abs == INSTANCE TimerAbs WITH
          Ids <- Fut, Stamps <- 0 .. MaxT, DelaySet <- Delays,
          due <- [i \in 1 .. nc |-> fireT[i]], ref <- [i \in 1 .. nc |-> fireT[i]],
          cfg <- AbsCfg
\* every step of the implementation is a contract step stamped with the model clock, or changes
\* nothing the contract can see  (this implies Abs!Spec: Abs!Next is \E t : Abs!NextAt(t))
Refines == Abs!Init /\ [][Abs!NextAt(now)]_(Abs!avars)
AbsInv  == Abs!TypeOK /\ Abs!InTimeNeverStarted

\* ------------------------------------------------------------ emission, view
\* The behaviour of the package does not depend on absolute time: states are identified by the
\* times REMAINING until each pending fire time / armed timer deadline (clipped below -2, where
\* LatenessOneTick is long violated).  fireT of futures that left the heap is never read again
\* (a repeated Cancel cannot change `intime`: see Cancel).  `now` and `hist` are not in the view.
Clip(x) == IF x < 0 - 2 THEN 0 - 2 ELSE x
View == <<nc, heap, [i \in Fut |-> IF i \in heap THEN Clip(fireT[i] - now) ELSE 0], watchers, tokens, pc, mis,
          [w \in W |-> IF pc[w] \in {"sleep", "dozing"} THEN Clip(dl[w] - now) ELSE 0], cur, started, cancelled, intime>>
\* one line per generated transition that extends the script
Emit == IF hist' # hist THEN EmitHist(hist') ELSE TRUE
\* simulation mode: only the script of the complete random behaviour
EmitLast == IF "VERIF_EMIT_MINLEN" \in DOMAIN IOEnv /\ TLCGet("level") + 1 < atoi(IOEnv.VERIF_EMIT_MINLEN)
            THEN TRUE ELSE EmitHist(hist')
=============================================================================
