------------------------------ MODULE TimerMC ------------------------------
(* Model-checking constants for TimerImpl (cfg files cannot hold negative  *)
(* numbers).  Delay classes in ticks: -1 = negative delay (due at once),   *)
(* 0 = zero delay (due at the next instant), small = near, large = far.    *)
EXTENDS TimerImpl
D_n0      == {0 - 1, 0}
D_n02     == {0 - 1, 0, 2}
D_n013    == {0 - 1, 0, 1, 3}
D_014     == {0, 1, 4}
D_n0125   == {0 - 1, 0, 1, 2, 5}
=============================================================================
