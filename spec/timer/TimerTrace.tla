------------------------------ MODULE TimerTrace ------------------------------
(* Trace validation for C12 / C13 (code -> spec).  Every line of the trace is  *)
(* one observation made by the harness on the REAL package timeout, with       *)
(* monotonic microsecond stamps relative to the start of the execution:        *)
(*                                                                             *)
(*   {"e":"Begin", "late":0|1, "L":..,"Q":..,"idle":..,"slack":..,"maxw":..,"gap":..} *)
(*   {"e":"Call", "i":n, "d":us, "tb":us, "ta":us}                             *)
(*   {"e":"Start", "i":n, "t":us}          first statement of the callback     *)
(*   {"e":"CancelRet", "i":n, "t":us}      taken right after Cancel returned   *)
(*   {"e":"Quiesce", "t":us}                                                   *)
(*   {"e":"Idle", "t":us, "w":watchers, "quiet":us}                            *)
(*   {"e":"Sample", "w":max watchers seen}                                     *)
(*                                                                             *)
(* The harness writes the events of one execution sorted by stamp (Call by tb, *)
(* a Call before anything else with the same stamp).  A line is consumed only  *)
(* if the corresponding action of TimerAbs is enabled; the contract is         *)
(* deterministic given the line, so the trace is accepted iff the search       *)
(* reaches depth Len(Trace)+1.  "Begin" starts a fresh observation period      *)
(* (many executions are concatenated in one file).                             *)
(* A "panic" field on a line (a library call panicked) is never accepted.      *)
EXTENDS TraceLib

VARIABLES due, ref, started, cancelled, intime, cfg, l

TA == INSTANCE TimerAbs WITH Ids <- {}, Stamps <- {}, DelaySet <- {}

Ev == Trace[l]

NoCfg == [late |-> FALSE, L |-> 0, Q |-> 0, idle |-> 0, slack |-> 0, maxw |-> 0, gap |-> 0]

Init == /\ due = <<>> /\ ref = <<>> /\ started = {} /\ cancelled = {} /\ intime = {}
        /\ cfg = NoCfg /\ l = 1

Step ==
    CASE Ev.e = "Begin" ->
           TA!Begin([late |-> Ev.late = 1, L |-> Ev.L, Q |-> Ev.Q, idle |-> Ev.idle,
                     slack |-> Ev.slack, maxw |-> Ev.maxw, gap |-> Ev.gap])
      [] Ev.e = "Call"      -> TA!Call(Ev.i, Ev.tb, Ev.ta, Ev.d)
      [] Ev.e = "Start"     -> TA!Start(Ev.i, Ev.t)
      [] Ev.e = "CancelRet" -> TA!CancelRet(Ev.i, Ev.t)
      [] Ev.e = "Quiesce"   -> TA!Quiesce(Ev.t)
      [] Ev.e = "Idle"      -> TA!Idle(Ev.t, Ev.w, Ev.quiet)
      [] Ev.e = "Sample"    -> TA!Sample(Ev.w)
      [] OTHER              -> FALSE

Next == /\ l <= Len(Trace)
        /\ ~Has(Ev, "panic")
        /\ Step
        /\ l' = l + 1

Spec == Init /\ [][Next]_<<due, ref, started, cancelled, intime, cfg, l>>
Accepted == AcceptByDiameter
=============================================================================
