------------------------------- MODULE WireDec -------------------------------
(* C16 (and the decoding half of C15), direction spec -> code: the INPUT space *)
(* of the decoders.  The input grows one byte at a time (Feed) and the seven   *)
(* decoder automata of WireFormat advance with it, so that every reachable     *)
(* state is "an input together with what every Unmarshal* must answer if the   *)
(* input ends here".  Bytes come from six classes: 00 01 7f (last byte of a    *)
(* varint: zero / small / largest digit) and 80 81 ff (continuation bytes).    *)
(* All inputs up to MaxLen are reached; Pick adds the structured adversarial   *)
(* inputs (over-long varints, huge length prefixes, truncated bodies).         *)
(*                                                                             *)
(* Emitted per transition: the input, for every kind the automaton's reply     *)
(* [ok, n, v] and the class of obligation: "exact" where the input begins with *)
(* an encoding the library itself produces (C15 dictates the reply), "open"    *)
(* otherwise (C16: no panic, 0 < n <= len and the body inside the input on     *)
(* success, n = 0 on failure; the automaton's reply is then only the           *)
(* implementation-shaped prediction and a different real reply is drift).      *)
EXTENDS WireFormat, Emit

CONSTANTS Classes,     \* byte classes fed, e.g. {0, 1, 127, 128, 129, 255}
          MaxLen,      \* all inputs over Classes up to this length
          First,       \* first bytes explored by this run (to split the work over several TLC runs)
          Structured,  \* BOOLEAN: also the structured adversarial inputs
          BigBodies    \* BOOLEAN: also 16 KiB bodies, complete and truncated

VARIABLES in,          \* the input so far
          au,          \* au[k] = state of the automaton of kind k after reading `in`
          hist

\* ---- structured adversarial inputs -------------------------------------------
Rep(n, b) == [i \in 1 .. n |-> b]
Pattern(n) == [i \in 1 .. n |-> (i * 7) % 251]

\* 9..12 continuation bytes, then nothing / a terminator (10th byte > 1 included), then 0..2 more bytes
OverLong == {Rep(k, c) \o t \o b :
               k \in 9 .. 12, c \in {128, 129, 255},
               t \in {<<>>, <<0>>, <<1>>, <<2>>, <<127>>}, b \in {<<>>, <<7>>, <<7, 7>>}}
            \* far beyond any shift: 30 continuation bytes, unterminated / terminated / with a "body"
            \cup {Rep(30, 255), Rep(30, 128) \o <<1>>, Rep(30, 129) \o <<2, 7, 7>>}

\* length prefixes near 2^31, 2^32, 2^63 and 2^64, as digit sequences
Huge == {<<127, 127, 127, 127, 7>>,                                   \* 2^31 - 1
         <<0, 0, 0, 0, 8>>,                                           \* 2^31
         <<127, 127, 127, 127, 15>>,                                  \* 2^32 - 1
         <<0, 0, 0, 0, 16>>,                                          \* 2^32
         Rep(9, 127),                                                 \* 2^63 - 1
         <<120>> \o Rep(8, 127),                                      \* 2^63 - 8
         Rep(9, 0) \o <<1>>,                                          \* 2^63
         <<1>> \o Rep(8, 0) \o <<1>>,                                 \* 2^63 + 1
         Rep(9, 127) \o <<1>>,                                        \* 2^64 - 1
         <<126>> \o Rep(8, 127) \o <<1>>,                             \* 2^64 - 2
         <<118>> \o Rep(8, 127) \o <<1>>,                             \* 2^64 - 10 (= -len(prefix) as int)
         <<117>> \o Rep(8, 127) \o <<1>>,                             \* 2^64 - 11
         <<113>> \o Rep(8, 127) \o <<1>>}                             \* 2^64 - 15
HugePrefix == {EncUint(d) \o Rep(m, 7) : d \in Huge, m \in {0, 1, 5, 12}}
              \cup {Take(EncUint(d), Min(j, Len(d) - 1)) : d \in Huge, j \in {1, 4, 8, 9}}   \* the prefix itself truncated

\* honest prefixes with empty / short-by-one / exact / over-complete bodies
Bodies == UNION {{EncUint(DigitsOf(L)) \o Pattern(m) : m \in {0, 1, L - 1, L, L + 1}} :
                   L \in {1, 2, 5, 127, 128, 129}}
Big == IF BigBodies
       THEN {EncUint(DigitsOf(L)) \o Pattern(m) : L \in {16383, 16384}, m \in {0, 16382, 16383, 16384, 16385}}
       ELSE {}

StructuredInputs == IF Structured THEN {<<>>} \cup OverLong \cup HugePrefix \cup Bodies \cup Big ELSE {}

\* ---- the machine ------------------------------------------------------------------
Replies(a) == [k \in Kinds |-> AReply(k, a[k])]
DecRec(i, a) == [op |-> "Dec", in |-> i, r |-> Replies(a), must |-> [k \in Kinds |-> MustClass(k, i)]]

Init == in = <<>> /\ au = [k \in Kinds |-> AInit(k)] /\ hist = <<>>

Feed(b) == /\ Len(in) < MaxLen
           /\ \A i \in 1 .. Len(in) : in[i] \in Classes     \* structured inputs are not extended
           /\ in = <<>> => b \in First
           /\ in' = Append(in, b)
           /\ au' = [k \in Kinds |-> AStep(k, au[k], b)]
           /\ hist' = <<DecRec(in', au')>>

Pick(s) == /\ in = <<>>
           /\ in' = s
           /\ au' = [k \in Kinds |-> RunFast(k, s)]
           /\ hist' = <<DecRec(in', au')>>

Next == (\E b \in Classes : Feed(b)) \/ (\E s \in StructuredInputs : Pick(s))
Spec == Init /\ [][Next]_<<in, au, hist>>

\* ---- what TLC checks on every input ------------------------------------------------
R(k) == AReply(k, au[k])

\* byte-at-a-time = the decoder as a function of the whole input (the plain fold Run
\* up to 200 bytes; for the 16 KiB inputs its shortcut RunFast)
Incremental == \A k \in Kinds : /\ au[k] = RunFast(k, in)
                                 /\ Len(in) <= 200 => au[k] = Run(k, AInit(k), in, 1)

\* C16 on the specification: every automaton is total and keeps within the input
TotalOK == \A k \in Kinds : Total(k, in, R(k))

\* C15: where the input begins with one of the library's own encodings the reply is the
\* dictated one, and re-encoding the decoded item gives back exactly the consumed bytes
DictatedOK == \A k \in Kinds : Dictated(k, in) =>
                  /\ R(k) = Want(k, in)
                  /\ IsItem(ItemOfReply(k, in, R(k)))
                  /\ Enc(ItemOfReply(k, in, R(k))) = Take(in, R(k).n)

\* conversely, an accepted varint the library would not have produced is over-long or has a
\* needless leading zero digit - never a different reading of a canonical encoding
OnlyNonCanonicalOpen ==
    (R("uint").ok /\ ~Dictated("uint", in)) => ~IsUint64(DigitsAt(in, R("uint").n))

StringAsBytes == R("string") = R("bytes")

View == in
Emit == EmitHist(hist')
=============================================================================
