------------------------------- MODULE WireEnc -------------------------------
(* C15, direction spec -> code: the case space of the encoders, enumerated by *)
(* TLC as behaviours, with the WireFormat theorems checked on every case.      *)
(*                                                                             *)
(* State: the sequence `items` of cases put on the wire so far (at most        *)
(* MaxItems).  Put(c) appends one case.  Every transition is emitted; the      *)
(* history holds one "Put" record per item with everything the format          *)
(* prescribes for it: the encoding, the predicted size, the offset in the      *)
(* stream and, for every destination length that is tried, whether Marshal     *)
(* must fail.  The adapter (harness/cmd/vh/xbinary.go) runs every Put alone    *)
(* (Marshal* into each destination length, ObjectsWriter.Write*, Writable*Size,*)
(* Unmarshal* with both newBuf values) and then the whole behaviour as ONE     *)
(* stream (all items marshalled back to back / written through one             *)
(* ObjectsWriter, then decoded in order).                                      *)
(*                                                                             *)
(* With MaxItems = 1 and a large Universe this enumerates single values (all   *)
(* digit lengths x digit classes, byte-pattern products for 32/64 bit, byte    *)
(* string lengths around the 1-2-3 byte prefix boundaries); with MaxItems = 3  *)
(* and the small mixed universe UConcat it enumerates all concatenations.      *)
(*                                                                             *)
(* Byte-string cases carry a DESCRIPTOR <<len, a, step>> instead of the        *)
(* content (byte i is (a + i*step) mod 256, i from 0) so that a 16 KiB string  *)
(* is three numbers in the emitted line; Expand is mirrored by the adapter.    *)
EXTENDS WireFormat, Emit, FiniteSets

CONSTANTS Universe,   \* set of cases that may be put  (cfg: Universe <- UUint | UFixed | UStr | UConcat)
          MaxItems,   \* length of the longest concatenation
          Lens,       \* UUint: digit lengths (subset of 1..10)
          FullLens,   \* UUint: lengths for which ALL per-position class combinations are taken;
                      \*        for the other lengths the middle digits are all of one class
          StrLens     \* UStr: content lengths

VARIABLES items, hist

\* ---- case -> item ----------------------------------------------------------
Expand(d) == [i \in 1 .. d[1] |-> (d[2] + (i - 1) * d[3]) % 256]
ItemOf(c) == IF c.kind \in BytesKinds THEN [kind |-> c.kind, v |-> Expand(c.v)] ELSE c

\* ---- the universes ----------------------------------------------------------
\* per-position digit classes {0, 1, 127}: contains 2^(7k)-1, 2^(7k), 2^(7k)+1 for every k
DigitClasses == {0, 1, 127}
MidSame(d) == \A i, j \in 2 .. Len(d) - 1 : d[i] = d[j]
UUint == {[kind |-> "uint", v |-> d] :
            d \in {e \in UNION {[1 .. n -> DigitClasses] : n \in Lens} :
                     IsUint64(e) /\ (Len(e) \in FullLens \/ MidSame(e))}}

UFixed == {[kind |-> "byte", v |-> <<b>>] : b \in {0, 1, 127, 128, 255}}
          \cup {[kind |-> "u16", v |-> b] : b \in [1 .. 2 -> {0, 1, 127, 128, 255}]}
          \cup {[kind |-> "u32", v |-> b] : b \in [1 .. 4 -> {0, 1, 127, 128, 255}]}
          \cup {[kind |-> "u64", v |-> b] : b \in [1 .. 8 -> {0, 255}]}
          \cup {[kind |-> "u64", v |-> b] : b \in {<<8, 7, 6, 5, 4, 3, 2, 1>>, <<1, 0, 0, 0, 0, 0, 0, 128>>,
                                                   <<127, 128, 1, 0, 255, 0, 1, 127>>}}
UFixedBig == UFixed \cup {[kind |-> "u64", v |-> b] : b \in [1 .. 8 -> {0, 1, 255}]}

UStr == {[kind |-> k, v |-> <<n, p[1], p[2]>>] :
           k \in BytesKinds, n \in StrLens, p \in {<<0, 1>>, <<255, 7>>}}

UConcat ==
    {[kind |-> "byte", v |-> <<b>>] : b \in {0, 128, 255}}
    \cup {[kind |-> "u16", v |-> <<2, 1>>], [kind |-> "u32", v |-> <<4, 3, 2, 129>>],
          [kind |-> "u64", v |-> <<8, 7, 6, 5, 4, 3, 2, 255>>]}
    \cup {[kind |-> "uint", v |-> d] :
            d \in {<<0>>, <<127>>, <<0, 1>>, <<127, 127, 1>>,
                   <<0, 0, 0, 0, 0, 0, 0, 0, 0, 1>>, <<127, 127, 127, 127, 127, 127, 127, 127, 127, 1>>}}
    \cup {[kind |-> "bytes", v |-> <<n, 1, 3>>] : n \in {0, 1, 127, 128}}
    \cup {[kind |-> "string", v |-> <<n, 65, 1>>] : n \in {0, 2, 128}}
\* a few items around two 16 KiB strings: offsets and consumed counts beyond 2^14 in a stream
UConcatBig == {[kind |-> "byte", v |-> <<255>>], [kind |-> "uint", v |-> <<0, 0, 1>>],
               [kind |-> "bytes", v |-> <<1, 9, 0>>],
               [kind |-> "bytes", v |-> <<16384, 5, 1>>], [kind |-> "string", v |-> <<16383, 9, 11>>]}

\* ---- what is emitted for one Put ---------------------------------------------
RECURSIVE StreamOf(_)
StreamOf(cs) == IF cs = <<>> THEN <<>> ELSE Enc(ItemOf(Head(cs))) \o StreamOf(Tail(cs))
RECURSIVE TotalSize(_)
TotalSize(cs) == IF cs = <<>> THEN 0 ELSE Size(ItemOf(Head(cs))) + TotalSize(Tail(cs))

\* destination lengths tried: all of 0..size+1 for short encodings, otherwise the
\* ones around the ends of the prefix and of the body
PrefixLen(x) == IF x.kind \in BytesKinds THEN Len(DigitsOf(Len(x.v))) ELSE Size(x)
BufLens(x) ==
    LET sz == Size(x)  p == PrefixLen(x)
    IN IF sz <= 16 THEN 0 .. sz + 1
       ELSE {0, 1, p - 1, p, p + 1, sz - 2, sz - 1, sz, sz + 1}
BufSeq(x) == SelectSeq([i \in 1 .. Size(x) + 2 |-> i - 1], LAMBDA l : l \in BufLens(x))

PutRec(c, off) ==
    LET x  == ItemOf(c)
        bs == BufSeq(x)
    IN [op   |-> "Put", kind |-> c.kind, v |-> c.v,
        \* numeric kinds: the whole encoding; byte strings: the length prefix (the body is the content)
        head |-> IF c.kind \in BytesKinds THEN EncUint(DigitsOf(Len(x.v))) ELSE Enc(x),
        size |-> Size(x), off |-> off,
        bufs |-> [i \in 1 .. Len(bs) |-> [l |-> bs[i], err |-> MarshalReply(x, bs[i]).err]]]

Init == items = <<>> /\ hist = <<>>
Put(c) == /\ Len(items) < MaxItems
          /\ items' = Append(items, c)
          /\ hist' = Append(hist, PutRec(c, TotalSize(items)))
Next == \E c \in Universe : Put(c)
Spec == Init /\ [][Next]_<<items, hist>>

\* ---- the theorems of the format, checked on every reachable case -------------
Last == ItemOf(items[Len(items)])

ItemsOK == items # <<>> => IsItem(Last)

\* predicted size = produced size; Marshal fails exactly below it
SizeOK == items # <<>> =>
    /\ Size(Last) = Len(Enc(Last))
    /\ IsByteSeq(Take(Enc(Last), PrefixLen(Last)))
    /\ \A l \in BufLens(Last) : LET m == MarshalReply(Last, l)
                                IN m.err <=> l < Len(Enc(Last))

\* the implementation-shaped encoder agrees with the contract on every destination length
ImplOK == (items # <<>> /\ Last.kind = "uint") =>
    /\ SizeTree(Last.v) = Size(Last)
    /\ \A l \in 0 .. Size(Last) + 1 :
          LET m == MarshalUintLoop(Last.v, l, 0, <<>>)  w == MarshalReply(Last, l)
          IN /\ m.err = w.err /\ m.n = w.n
             /\ ~m.err => m.bytes = w.bytes

\* Dec(Enc(x)) = x and consumed = produced, item after item over the whole stream;
\* at each position C15 dictates the reply (Dictated) and dictates exactly this one (Want)
RECURSIVE DecodesBack(_, _)
DecodesBack(stream, cs) ==
    IF cs = <<>> THEN stream = <<>>
    ELSE LET x == ItemOf(Head(cs))
             r == DecLong(x.kind, stream)
         IN /\ r.ok /\ r.n = Size(x)
            /\ ItemOfReply(x.kind, stream, r) = x
            /\ Dictated(x.kind, stream) /\ Want(x.kind, stream) = r
            /\ DecodesBack(Drop(stream, r.n), Tail(cs))
RoundTrip == DecodesBack(StreamOf(items), items)

View == items
Emit == EmitHist(hist')
=============================================================================
