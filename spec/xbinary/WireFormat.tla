------------------------------ MODULE WireFormat ------------------------------
(* The wire format of package xbinary (properties C15 and C16), written as a  *)
(* constant module: no variables, only definitions.  It is the single oracle   *)
(* for both properties and is used by                                          *)
(*   WireEnc.tla    case enumeration for the encoders      (C15, spec -> code)  *)
(*   WireSmall.tla  exhaustive 8/16-bit values             (C15, spec -> code)  *)
(*   WireDec.tla    decoder input-space enumeration        (C16, spec -> code)  *)
(*   WireTrace.tla  validation of recorded executions      (code -> spec)       *)
(*                                                                              *)
(* TLC integers are 32-bit, so a 64-bit quantity is never formed.  An unsigned *)
(* value is a sequence of base-128 DIGITS, least significant first; a          *)
(* fixed-width value is a sequence of base-256 digits (bytes), least           *)
(* significant first.  The Go side converts digit sequences to uint64.         *)
(*                                                                              *)
(* Two levels live here (DESIGN.md section 1):                                  *)
(*  CONTRACT   what C15/C16 say: Enc, Size, MarshalReply, Dictated/Want,        *)
(*             Total.  Only these decide verdicts.                              *)
(*  IMPLEMENTATION-SHAPED  the Go loops transcribed: MarshalUintLoop, SizeTree, *)
(*             the byte-at-a-time decoder automata (UStep/FStep/BStep) with the *)
(*             64-bit wrap-around of UnmarshalUint.  Their predictions beyond   *)
(*             the contract are compared as MODEL-DRIFT only.                   *)
(* WireEnc/WireDec make TLC check that the second level satisfies the first.   *)
EXTENDS Integers, Sequences

Min(a, b) == IF a < b THEN a ELSE b
Take(s, n) == SubSeq(s, 1, n)
Drop(s, n) == SubSeq(s, n + 1, Len(s))
Rev(s) == [i \in 1 .. Len(s) |-> s[Len(s) + 1 - i]]

(* ========================================================================== *)
(* 1. Values                                                                    *)
(* ========================================================================== *)
FixedKinds == {"byte", "u16", "u32", "u64"}
BytesKinds == {"bytes", "string"}
Kinds      == FixedKinds \cup {"uint"} \cup BytesKinds

Width(k) == CASE k = "byte" -> 1 [] k = "u16" -> 2 [] k = "u32" -> 4 [] k = "u64" -> 8

IsByteSeq(s) == \A i \in 1 .. Len(s) : s[i] \in 0 .. 255

\* base-128 digits, least significant first
IsDigits(ds)  == Len(ds) >= 1 /\ \A i \in 1 .. Len(ds) : ds[i] \in 0 .. 127
\* canonical: no trailing (= most significant) zero digit, except the value 0 itself
Canonical(ds) == IsDigits(ds) /\ (Len(ds) > 1 => ds[Len(ds)] # 0)
\* below 2^64: at most 10 digits, and the 10th digit (weight 2^63) is 0 or 1
Fits64(ds)    == Len(ds) <= 10 /\ (Len(ds) = 10 => ds[10] <= 1)
IsUint64(ds)  == Canonical(ds) /\ Fits64(ds)

RECURSIVE Norm(_)
Norm(ds) == IF Len(ds) > 1 /\ ds[Len(ds)] = 0 THEN Norm(Take(ds, Len(ds) - 1)) ELSE ds

\* digits of a small natural (lengths of byte strings)
RECURSIVE DigitsOf(_)
DigitsOf(n) == IF n < 128 THEN <<n>> ELSE <<n % 128>> \o DigitsOf(n \div 128)

\* a digit sequence whose value is below 2^28 can be turned into a TLC integer
IsSmall(ds) == Len(Norm(ds)) <= 4
RECURSIVE ValOf(_)
ValOf(ds) == IF ds = <<>> THEN 0 ELSE Head(ds) + 128 * ValOf(Tail(ds))

\* An item is [kind, v]: v = the byte for "byte", little-endian base-256 digits of
\* exactly Width(kind) bytes for u16/u32/u64, canonical base-128 digits for
\* "uint", the content for "bytes"/"string".
IsItem(x) ==
    /\ x.kind \in Kinds
    /\ CASE x.kind \in FixedKinds -> Len(x.v) = Width(x.kind) /\ IsByteSeq(x.v)
         [] x.kind = "uint"       -> IsUint64(x.v)
         [] x.kind \in BytesKinds -> IsByteSeq(x.v)

(* ========================================================================== *)
(* 2. Encoding (contract)                                                       *)
(* ========================================================================== *)
\* variable-length unsigned: one byte per digit, continuation bit 0x80 on all but the last
EncUint(ds) == [i \in 1 .. Len(ds) |-> IF i < Len(ds) THEN 128 + ds[i] ELSE ds[i]]
\* fixed width: big-endian, i.e. most significant byte first
EncFixed(le) == Rev(le)
\* byte string: length as variable-length unsigned, then the content
EncBytes(b) == EncUint(DigitsOf(Len(b))) \o b

Enc(x) == CASE x.kind \in FixedKinds -> EncFixed(x.v)
            [] x.kind = "uint"       -> EncUint(x.v)
            [] x.kind \in BytesKinds -> EncBytes(x.v)

\* predicted size, defined independently of Enc (TLC checks Size(x) = Len(Enc(x)))
Size(x) == CASE x.kind \in FixedKinds -> Width(x.kind)
             [] x.kind = "uint"       -> Len(x.v)
             [] x.kind \in BytesKinds -> Len(DigitsOf(Len(x.v))) + Len(x.v)

\* Marshal of item x into a destination of L bytes.  C15: fails with an error
\* iff L < Size(x); otherwise writes exactly Enc(x) and reports Size(x).
\* (n = 0 on failure is what the code does; the property does not ask for it,
\* so the adapter treats a different n on failure as drift.)
MarshalReply(x, L) ==
    IF L < Size(x) THEN [err |-> TRUE,  n |-> 0,       bytes |-> <<>>]
                   ELSE [err |-> FALSE, n |-> Size(x), bytes |-> Enc(x)]

(* ========================================================================== *)
(* 3. Encoding (implementation-shaped)                                          *)
(* ========================================================================== *)
\* MarshalUint's loop.  ds = digits of what is left of v; "v > 127" is
\* "more than one digit left"; "v >> 7" is Tail.  bytes = what was stored in
\* the destination before returning (also on failure).
RECURSIVE MarshalUintLoop(_, _, _, _)
MarshalUintLoop(ds, L, idx, out) ==
    IF idx = L THEN [err |-> TRUE, n |-> 0, bytes |-> out]
    ELSE IF Len(ds) > 1
         THEN MarshalUintLoop(Tail(ds), L, idx + 1, Append(out, 128 + Head(ds)))
         ELSE [err |-> FALSE, n |-> idx + 1, bytes |-> Append(out, Head(ds))]

\* WritableUintSize's hand-unrolled decision tree.  For canonical ds,
\* "v >= 2^(7k)" is "more than k digits".
SizeTree(ds) ==
    LET ge(k) == Len(ds) > k
    IN IF ge(5)
       THEN IF ge(7) THEN (IF ge(9) THEN 10 ELSE IF ge(8) THEN 9 ELSE 8)
                     ELSE (IF ge(6) THEN 7 ELSE 6)
       ELSE IF ge(3) THEN (IF ge(4) THEN 5 ELSE 4)
            ELSE IF ge(2) THEN 3
            ELSE IF ge(1) THEN 2 ELSE 1

(* ========================================================================== *)
(* 4. Decoding: byte-at-a-time automata (implementation-shaped, total)         *)
(* ========================================================================== *)
\* A reply is [ok, n, v]: ok(n, value) or fail.  v = decoded digits for "uint",
\* little-endian bytes for fixed kinds, and for byte strings the RANGE <<lo, hi>>
\* (0-based, half open) of the input that is the body.
Fail == [ok |-> FALSE, n |-> 0, v |-> <<>>]
Ok(n, v) == [ok |-> TRUE, n |-> n, v |-> v]

\* what UnmarshalUint leaves of an arbitrary digit sequence: digit i is shifted
\* by 7(i-1); shifts >= 64 give 0, the 10th digit keeps only its lowest bit.
Mod64(ds) == Norm([i \in 1 .. Min(Len(ds), 10) |-> IF i = 10 THEN ds[i] % 2 ELSE ds[i]])

\* --- variable-length unsigned: reads until a byte without continuation bit
UInit == [st |-> "more", n |-> 0, ds |-> <<>>]
UStep(s, b) == IF s.st = "done" THEN s
               ELSE [st |-> IF b < 128 THEN "done" ELSE "more",
                     n  |-> s.n + 1, ds |-> Append(s.ds, b % 128)]
UReply(s) == IF s.st = "done" THEN Ok(s.n, Mod64(s.ds)) ELSE Fail

\* --- fixed width W: collects the first W bytes
FInit == [bs |-> <<>>]
FStep(W, s, b) == IF Len(s.bs) < W THEN [bs |-> Append(s.bs, b)] ELSE s
FReply(W, s) == IF Len(s.bs) = W THEN Ok(W, Rev(s.bs)) ELSE Fail

\* --- byte string: the length automaton, then counts body bytes.  The length
\* is compared UNSIGNED with what is there (the repaired UnmarshalBytes).
BInit == [u |-> UInit, have |-> 0]
BStep(s, b) == IF s.u.st = "more" THEN [u |-> UStep(s.u, b), have |-> 0]
               ELSE [u |-> s.u, have |-> s.have + 1]
BReply(s) == IF s.u.st = "more" THEN Fail
             ELSE LET L == Mod64(s.u.ds)
                  IN IF IsSmall(L) /\ ValOf(L) <= s.have
                     THEN Ok(s.u.n + ValOf(L), <<s.u.n, s.u.n + ValOf(L)>>)
                     ELSE Fail

AInit(k) == CASE k \in FixedKinds -> FInit [] k = "uint" -> UInit [] k \in BytesKinds -> BInit
AStep(k, s, b) == CASE k \in FixedKinds -> FStep(Width(k), s, b)
                    [] k = "uint"       -> UStep(s, b)
                    [] k \in BytesKinds -> BStep(s, b)
AReply(k, s) == CASE k \in FixedKinds -> FReply(Width(k), s)
                  [] k = "uint"       -> UReply(s)
                  [] k \in BytesKinds -> BReply(s)

RECURSIVE Run(_, _, _, _)
Run(k, s, in, i) == IF i > Len(in) THEN s ELSE Run(k, AStep(k, s, in[i]), in, i + 1)
\* the decoder of kind k as a total function of the input
Dec(k, in) == AReply(k, Run(k, AInit(k), in, 1))

\* The same fold without stepping through a long input byte by byte.  After its
\* first bytes an automaton only idles: a fixed-width one has its W <= 8 bytes, a
\* finished varint ignores the rest, a byte-string automaton whose length is
\* complete only counts.  (WireDec checks RunFast = Run on every input it reaches
\* up to 200 bytes.)
Horizon == 24
RunFast(k, in) ==
    IF Len(in) <= Horizon THEN Run(k, AInit(k), in, 1)
    ELSE LET s == Run(k, AInit(k), Take(in, Horizon), 1)
         IN CASE k \in FixedKinds -> s
              [] k = "uint"       -> IF s.st = "done" THEN s ELSE Run(k, s, in, Horizon + 1)
              [] k \in BytesKinds -> IF s.u.st = "done"
                                     THEN [s EXCEPT !.have = s.have + (Len(in) - Horizon)]
                                     ELSE Run(k, s, in, Horizon + 1)
DecLong(k, in) == AReply(k, RunFast(k, in))

(* ========================================================================== *)
(* 5. Decoding (contract)                                                       *)
(* ========================================================================== *)
\* position of the first byte without continuation bit, 0 if none
RECURSIVE FirstTermFrom(_, _)
FirstTermFrom(in, i) == IF i > Len(in) THEN 0 ELSE IF in[i] < 128 THEN i ELSE FirstTermFrom(in, i + 1)
FirstTerm(in) == FirstTermFrom(in, 1)
DigitsAt(in, k) == [i \in 1 .. k |-> in[i] % 128]

\* C15 dictates the reply whenever the input BEGINS WITH an encoding this
\* library produces for kind k (what follows is irrelevant: any bytes are a
\* concatenation of encoded "byte" items): the reply must be ok with exactly
\* that encoding's length and value.
Dictated(k, in) ==
    CASE k \in FixedKinds -> Len(in) >= Width(k)
      [] k = "uint"       -> LET t == FirstTerm(in) IN t > 0 /\ IsUint64(DigitsAt(in, t))
      [] k \in BytesKinds -> LET t == FirstTerm(in)
                             IN /\ t > 0 /\ IsUint64(DigitsAt(in, t))
                                /\ IsSmall(DigitsAt(in, t))
                                /\ ValOf(DigitsAt(in, t)) <= Len(in) - t
Want(k, in) ==
    CASE k \in FixedKinds -> Ok(Width(k), Rev(Take(in, Width(k))))
      [] k = "uint"       -> LET t == FirstTerm(in) IN Ok(t, DigitsAt(in, t))
      [] k \in BytesKinds -> LET t == FirstTerm(in)
                                 L == ValOf(DigitsAt(in, t))
                             IN Ok(t + L, <<t, t + L>>)

\* C16 for an arbitrary input: on success 0 < n <= Len(in) and the body range
\* lies inside the input; on failure n = 0.  Nothing else: in particular an
\* over-long or non-canonical varint may be accepted or rejected, with any value.
Total(k, in, r) ==
    IF r.ok
    THEN /\ 0 < r.n /\ r.n <= Len(in)
         /\ k \in BytesKinds => /\ Len(r.v) = 2
                                /\ 0 <= r.v[1] /\ r.v[1] <= r.v[2] /\ r.v[2] <= Len(in)
    ELSE r.n = 0

\* what a reply r to input in of kind k must satisfy: C16 always, C15 where it dictates
Allowed(k, in, r, strict) == Total(k, in, r) /\ (strict /\ Dictated(k, in) => r = Want(k, in))
MustClass(k, in) == IF Dictated(k, in) THEN "exact" ELSE "open"

\* the item a successful reply stands for (used to re-encode)
ItemOfReply(k, in, r) == [kind |-> k, v |-> IF k \in BytesKinds THEN SubSeq(in, r.v[1] + 1, r.v[2]) ELSE r.v]
=============================================================================
