------------------------------ MODULE WireSmall ------------------------------
(* C15, exhaustive part: EVERY 8-bit and EVERY 16-bit value.  One transition   *)
(* per row of 256 values (the "byte" row, and one row per high byte of a       *)
(* uint16), so that 65 792 values are 257 emitted lines; the record lists the  *)
(* prescribed encoding of each value of the row.  The invariants state the     *)
(* format theorems for every value of the row, including what "big-endian"     *)
(* means numerically (the integer is small enough to be formed here).          *)
EXTENDS WireFormat, Emit

CONSTANTS Rows      \* high bytes for which the u16 row is generated (subset of 0..255)

VARIABLES row,      \* -1 initially; 256 = the row of all "byte" values; h = u16 values h*256 .. h*256+255
          hist

KindOf(r) == IF r = 256 THEN "byte" ELSE "u16"
\* the item for the lo-th value of row r, as little-endian base-256 digits
ItemAt(r, lo) == IF r = 256 THEN [kind |-> "byte", v |-> <<lo>>]
                 ELSE [kind |-> "u16", v |-> <<lo, r>>]
NumAt(r, lo) == IF r = 256 THEN lo ELSE r * 256 + lo

RowRec(r) == [op |-> "Row", kind |-> KindOf(r), hi |-> IF r = 256 THEN 0 ELSE r,
              size |-> Width(KindOf(r)),
              \* the same for every value of the row: destination lengths 0..W+1, failure iff shorter than W
              bufs |-> [i \in 1 .. Width(KindOf(r)) + 2 |->
                          [l |-> i - 1, err |-> MarshalReply(ItemAt(r, 0), i - 1).err]],
              enc |-> [i \in 1 .. 256 |-> Enc(ItemAt(r, i - 1))]]

Init == row = -1 /\ hist = <<>>
Pick(r) == row = -1 /\ row' = r /\ hist' = <<RowRec(r)>>
Next == \E r \in Rows \cup {256} : Pick(r)
Spec == Init /\ [][Next]_<<row, hist>>

RowOK == row # -1 =>
    \A lo \in 0 .. 255 :
        LET x == ItemAt(row, lo)  e == Enc(x)  W == Width(x.kind)
        IN /\ IsItem(x) /\ Size(x) = W /\ Len(e) = W
           \* big-endian: the bytes read as a base-256 numeral, most significant first, are the number
           /\ (IF W = 1 THEN e[1] ELSE e[1] * 256 + e[2]) = NumAt(row, lo)
           \* Dec(Enc(x)) = x, consumed = produced, whatever follows
           /\ \A tail \in {<<>>, <<255>>} :
                 /\ Dec(x.kind, e \o tail) = Ok(W, x.v)
                 /\ Dictated(x.kind, e \o tail) /\ Want(x.kind, e \o tail) = Ok(W, x.v)
           \* one byte short: cannot be marshalled, and C16 leaves only "fail, n = 0" or ok within bounds
           /\ \A l \in 0 .. W + 1 : MarshalReply(x, l).err = MarshalReply(ItemAt(row, 0), l).err
           /\ MarshalReply(x, W - 1).err /\ ~MarshalReply(x, W).err
           /\ Total(x.kind, Take(e, W - 1), Dec(x.kind, Take(e, W - 1)))

View == row
Emit == EmitHist(hist')
=============================================================================
