------------------------------ MODULE WireTrace ------------------------------
(* Trace validation for C15 / C16 (code -> spec).  Every line of the trace is *)
(* one real call of package xbinary with its real result, recorded by          *)
(* `vh drive xbinary`; a line is consumed only if WireFormat allows it.        *)
(*                                                                             *)
(* The stream part is stateful: `pend` is the sequence of items written to the *)
(* wire and not yet read, `wire` the bytes written and not yet consumed.       *)
(*   Reset  a new stream                                                       *)
(*   W      an item was written (MarshalX into the stream buffer or            *)
(*          ObjectsWriter.WriteX): it must succeed, produce exactly Enc(item), *)
(*          report Size(item), and the predicted size must be Size(item)       *)
(*   R      the next item was decoded from the unread wire: it must be the     *)
(*          oldest pending item, consume exactly its encoding, and (newBuf)    *)
(*          survive the overwriting of the source                              *)
(*   M      stateless MarshalX into a destination of buflen bytes: fails iff   *)
(*          buflen < Size(item), otherwise Enc(item)                           *)
(*   D      stateless UnmarshalX of an arbitrary input: C16's Total; and, with *)
(*          Strict (the C15 run), the dictated reply where the input begins    *)
(*          with one of the library's own encodings                            *)
(* 64-bit values appear as base-128 digit sequences / little-endian bytes.     *)
EXTENDS TraceLib, WireFormat

CONSTANT Strict     \* TRUE: also require what C15 dictates of D events

VARIABLES wire, pend, l

Ev == Trace[l]
ItemOfEv(e) == [kind |-> e.kind, v |-> e.v]

Init == wire = <<>> /\ pend = <<>> /\ l = 1

Reset == /\ l <= Len(Trace) /\ Ev.op = "Reset"
         /\ wire' = <<>> /\ pend' = <<>> /\ l' = l + 1

Write == /\ l <= Len(Trace) /\ Ev.op = "W"
         /\ LET x == ItemOfEv(Ev)
            IN /\ IsItem(x)                       \* the harness logged a well-formed value
               /\ ~Ev.panic /\ ~Ev.err
               /\ Ev.n = Size(x)
               /\ Ev.bytes = Enc(x)               \* MarshalX and ObjectsWriter.WriteX alike
               /\ Ev.psize \in {-1, Size(x)}      \* -1: the library has no size function for the kind
               /\ wire' = wire \o Ev.bytes
               /\ pend' = Append(pend, x)
         /\ l' = l + 1

Read == /\ l <= Len(Trace) /\ Ev.op = "R"
        /\ pend # <<>>
        /\ LET x == Head(pend)
           IN /\ Ev.kind = x.kind
              /\ ~Ev.panic /\ Ev.ok
              /\ Ev.n = Size(x)                   \* consumed = produced
              /\ Ev.v = x.v                       \* decoded = encoded
              /\ Ev.indep                         \* newBuf=true: independent of the source
              /\ Take(wire, Ev.n) = Enc(x)
              /\ wire' = Drop(wire, Ev.n)
              /\ pend' = Tail(pend)
        /\ l' = l + 1

Marshal == /\ l <= Len(Trace) /\ Ev.op = "M"
           /\ LET x == ItemOfEv(Ev)
                  m == MarshalReply(x, Ev.buflen)
              IN /\ IsItem(x)
                 /\ ~Ev.panic
                 /\ Ev.err = m.err
                 /\ ~m.err => (Ev.n = m.n /\ Ev.bytes = m.bytes)
           /\ UNCHANGED <<wire, pend>> /\ l' = l + 1

\* the reply of a D event in the shape of WireFormat: for byte strings the value is a range;
\* the event carries the returned content, any range with that content will do
RangesOf(v, in) == {a \in 0 .. Len(in) - Len(v) : SubSeq(in, a + 1, a + Len(v)) = v}
Decode == /\ l <= Len(Trace) /\ Ev.op = "D"
          /\ ~Ev.panic
          \* over: the same call repeated with the input placed against a page that may not be touched faulted there
          /\ Has(Ev, "over") => ~Ev.over
          /\ IF Ev.kind \in BytesKinds /\ Ev.ok
             THEN /\ Ev.inside
                  /\ \E a \in RangesOf(Ev.v, Ev.in) :
                        LET r == Ok(Ev.n, <<a, a + Len(Ev.v)>>)
                        IN /\ Total(Ev.kind, Ev.in, r)
                           /\ (Strict /\ Dictated(Ev.kind, Ev.in)) =>
                                 /\ Ev.n = Want(Ev.kind, Ev.in).n
                                 /\ Ev.v = ItemOfReply(Ev.kind, Ev.in, Want(Ev.kind, Ev.in)).v
                                 /\ Ev.indep
             ELSE LET r == [ok |-> Ev.ok, n |-> Ev.n, v |-> Ev.v]
                  IN Allowed(Ev.kind, Ev.in, r, Strict)
          /\ UNCHANGED <<wire, pend>> /\ l' = l + 1

\* A byte string too long to be logged byte by byte (beyond the 3-byte length prefix: 2^21 and up): only the
\* numbers are recorded.  The predicted size, the size written by Marshal and by the ObjectsWriter are all
\* (number of base-128 digits of len) + len, a buffer one byte shorter is refused, decoding consumes exactly that
\* many bytes and gives the original back (rt), and an in-place re-encode of the decoded (aliasing) value further
\* to the front of the same buffer still decodes to the original (shift).
RECURSIVE Digits128(_)
Digits128(n) == IF n < 128 THEN 1 ELSE 1 + Digits128(n \div 128)
Big == /\ l <= Len(Trace) /\ Ev.op = "Big"
       /\ LET want == Digits128(Ev.len) + Ev.len
          IN /\ Strict => (Ev.psize = want /\ Ev.n = want /\ Ev.nw = want /\ Ev.consumed = want)
             /\ Strict => (Ev.rt /\ Ev.shortfails /\ Ev.shift)
             /\ ~Ev.panic
       /\ l' = l + 1 /\ UNCHANGED <<wire, pend>>

\* A very long input (megabytes of continuation bytes): totality only - no panic, on success 0 < n <= len,
\* on failure n = 0.  (If the decoder takes the whole process down instead, there is no event at all: the check
\* reports the death of the driver.)
Long == /\ l <= Len(Trace) /\ Ev.op = "Long"
        /\ ~Ev.panic
        /\ IF Ev.ok THEN Ev.n > 0 /\ Ev.n <= Ev.len ELSE Ev.n = 0
        /\ l' = l + 1 /\ UNCHANGED <<wire, pend>>

\* n distinct short values decoded one after the other: every one came back as itself
Bulk == /\ l <= Len(Trace) /\ Ev.op = "Bulk"
        /\ ~Ev.panic /\ Ev.bad = 0
        /\ l' = l + 1 /\ UNCHANGED <<wire, pend>>

Next == Reset \/ Write \/ Read \/ Marshal \/ Decode \/ Big \/ Long \/ Bulk
Spec == Init /\ [][Next]_<<wire, pend, l>>
Accepted == AcceptByDiameter
=============================================================================
