------------------------------- MODULE ZipFs -------------------------------
(* Contract of files.ZipFolder / files.UnzipToFolder (property C20).          *)
(*                                                                            *)
(*   "For any directory tree, ZipFolder followed by UnzipToFolder reproduces  *)
(*    every regular file - relative path and content - that the filter and    *)
(*    the recursive flag select, and nothing else.  For any archive           *)
(*    whatsoever, UnzipToFolder creates or modifies files only inside the     *)
(*    destination directory."                                                 *)
(*                                                                            *)
(* Vocabulary.  A PATH is a sequence of names (strings).  A FILE SYSTEM is a  *)
(* record [files, dirs]: files is a function path -> content (the regular     *)
(* files), dirs the set of directory paths.  A source TREE has the same       *)
(* shape with paths relative to the source directory (dirs = the directories  *)
(* listed explicitly, e.g. empty ones; ancestors of files are implied).       *)
(* An ARCHIVE is a sequence of entries [slash, segs, dir, content]: segs is   *)
(* the entry name split at "/", slash says the name starts with "/", dir      *)
(* says it ends with "/" (a directory entry).                                 *)
(*                                                                            *)
(* The contract is the two predicates RoundTripOK and Confined at the end of  *)
(* the first part.  Zip and Unzip are REFERENCE functions (the simplest       *)
(* functions that satisfy the contract); the state machine in the second part *)
(* lets TLC check, for every tree and every archive of the bound, that they   *)
(* do:   Inside(Unzip(Zip(t, f, r))) = Select(t, f, r)   and                  *)
(*       Outside(Unzip(archive)) = Outside(before).                            *)
(* ZipImpl.tla extends this module with a transcription of the Go code and    *)
(* is the module that generates the tests.                                    *)
EXTENDS Integers, Sequences, FiniteSets, Emit

CONSTANTS
    \* ---- bound of the source trees (round trip) ---------------------------
    NNames,       \* names used in trees: the first NNames elements of NameSeq
    Contents,     \* content identifiers (0 is the empty file)
    MaxDepth,     \* longest path of a tree node
    MaxFiles,     \* most regular files of a tree
    MaxDirs,      \* most explicitly listed directories of a tree (empty dirs)
    \* ---- bound of the hostile archives (confinement) ----------------------
    Segs,         \* entry-name segments, e.g. {"..", ".", "a", "b"}
    MaxLen,       \* most segments of an entry name
    MaxEntries,   \* most entries of an archive
    Slashes,      \* subset of BOOLEAN: names without / with a leading "/"
    DirFlags,     \* subset of BOOLEAN: file entries / directory entries
    DestExists    \* subset of BOOLEAN: destination directory absent / present

VARIABLES
    phase,   \* "init" | "tree" | "rt" (round trip done) | "ex" (extracting)
    tree,    \* the source tree of a round trip
    sel,     \* Select(tree, filter, recursive): what the contract prescribes
    arch,    \* the archive (round trip: as written by Zip; "ex": entries so far)
    fs,      \* the file system UnzipToFolder works on (the whole sandbox)
    hist     \* emitted behaviour; not part of the VIEW

(* ========================= part 1: the contract ========================= *)

\* ---- paths ---------------------------------------------------------------
NameSeq == <<"a", "b", "c">>                 \* in directory-listing order
Names   == {NameSeq[i] : i \in 1 .. NNames}
Rank(n) == CHOOSE i \in 1 .. Len(NameSeq) : NameSeq[i] = n

RECURSIVE SeqsOfLen(_, _)
SeqsOfLen(S, n) == IF n = 0 THEN {<<>>}
                   ELSE {Append(p, s) : p \in SeqsOfLen(S, n - 1), s \in S}
PathsUpTo(S, n) == UNION {SeqsOfLen(S, k) : k \in 1 .. n}

IsPrefix(p, q)     == Len(p) <= Len(q) /\ SubSeq(q, 1, Len(p)) = p
StrictPrefix(p, q) == Len(p) < Len(q) /\ IsPrefix(p, q)
Prefixes(p)        == {SubSeq(p, 1, k) : k \in 0 .. Len(p)}        \* <<>> .. p
Ancestors(p)       == Prefixes(p) \ {p}
Front(p)           == SubSeq(p, 1, Len(p) - 1)

\* p lies strictly inside directory d
Under(d, p) == StrictPrefix(d, p)

\* ---- name resolution: what filepath.Join(dest, name) / filepath.Clean do -----
\* Walk the segments of the entry name on top of the (absolute, clean)
\* destination path: "." stays, ".." climbs one level (and stays at the root
\* of the file system), any other segment descends.  A leading "/" of the entry
\* name only adds an empty segment, which Clean drops - so `slash` is ignored.
RECURSIVE CleanOn(_, _)
CleanOn(stack, segs) ==
    IF segs = <<>> THEN stack
    ELSE LET s == Head(segs)
             st2 == CASE s = "."  -> stack
                      [] s = ".." -> IF stack = <<>> THEN stack ELSE Front(stack)
                      [] OTHER    -> Append(stack, s)
         IN CleanOn(st2, Tail(segs))

Resolve(dest, e) == CleanOn(dest, e.segs)

\* ---- source trees and selection -----------------------------------------
\* No regular file may be an ancestor of (or equal to) another node.
NoClash(F, D) == \A p \in F : \A q \in F \cup D : ~StrictPrefix(p, q) /\ (q \in D => p # q)

TreePaths == PathsUpTo(Names, MaxDepth)
FileSets  == {F \in SUBSET TreePaths : Cardinality(F) <= MaxFiles /\ NoClash(F, {})}
DirSets(F) == IF MaxDirs = 0 THEN {{}}
              ELSE {D \in SUBSET {d \in TreePaths : NoClash(F, {d})} : Cardinality(D) <= MaxDirs}
Trees == UNION {{[files |-> cf, dirs |-> D] : cf \in [F -> Contents], D \in DirSets(F)} : F \in FileSets}

\* A filter is either absent (nil = TRUE: ZipFolder's testFunc is nil) or the
\* set of paths for which testFunc answers true.
NoFilter   == [nil |-> TRUE, acc |-> {}]
Filters(t) == {NoFilter} \cup {[nil |-> FALSE, acc |-> A] : A \in SUBSET DOMAIN t.files}

\* What "the filter and the recursive flag select": without `recursive`
\* only the files directly in the source directory.
Selected(t, f, r) == {p \in DOMAIN t.files : (f.nil \/ p \in f.acc) /\ (r \/ Len(p) = 1)}
Select(t, f, r)   == [p \in Selected(t, f, r) |-> t.files[p]]

\* ---- file systems ---------------------------------------------------------
WellFormed(x) ==
    /\ <<>> \in x.dirs
    /\ \A d \in x.dirs : Prefixes(d) \subseteq x.dirs
    /\ \A p \in DOMAIN x.files : p \notin x.dirs /\ Ancestors(p) \subseteq x.dirs

\* the regular files below directory d, with paths relative to d
Inside(x, d) ==
    LET ps == {p \in DOMAIN x.files : Under(d, p)}
    IN [q \in {SubSeq(p, Len(d) + 1, Len(p)) : p \in ps} |-> x.files[d \o q]]

\* everything that is NOT below d.  d itself and its ancestors are left out of
\* the directory set: UnzipToFolder may have to create them (EnsureDirExists).
Outside(x, d) ==
    [files |-> [p \in {p \in DOMAIN x.files : ~Under(d, p)} |-> x.files[p]],
     dirs  |-> {q \in x.dirs : ~Under(d, q) /\ q \notin Prefixes(d)}]

\* ---- THE CONTRACT ---------------------------------------------------------
\* (1) round trip: after ZipFolder(t, f, r) and UnzipToFolder into d, the
\*     regular files below d are exactly the selected ones, same content.
RoundTripOK(t, f, r, after, d) == Inside(after, d) = Select(t, f, r)
\* (2) confinement: whatever the archive was, and whether UnzipToFolder
\*     returned an error, skipped entries or extracted them - nothing outside d
\*     was created, modified or removed.  Nothing is said about the inside.
Confined(before, after, d) == Outside(after, d) = Outside(before, d)

\* ---- reference Zip / Unzip ------------------------------------------------
RECURSIVE LexLess(_, _)
LexLess(p, q) == IF p = <<>> THEN q # <<>>
                 ELSE IF q = <<>> THEN FALSE
                 ELSE IF Head(p) = Head(q) THEN LexLess(Tail(p), Tail(q))
                 ELSE Rank(Head(p)) < Rank(Head(q))
RECURSIVE SortPaths(_)
SortPaths(S) == IF S = {} THEN <<>>
                ELSE LET m == CHOOSE x \in S : \A y \in S \ {x} : LexLess(x, y)
                     IN <<m>> \o SortPaths(S \ {m})

\* entry name = path relative to the source directory
Zip(t, f, r) ==
    LET ps == SortPaths(Selected(t, f, r))
    IN [i \in 1 .. Len(ps) |-> [slash |-> FALSE, segs |-> ps[i], dir |-> FALSE, content |-> t.files[ps[i]]]]

\* a regular file can be created (or overwritten) at p
CanCreate(x, p) == /\ p # <<>> /\ p \notin x.dirs
                   /\ \A a \in Ancestors(p) : a \notin DOMAIN x.files
Put(x, p, c) == [files |-> [q \in DOMAIN x.files \cup {p} |-> IF q = p THEN c ELSE x.files[q]],
                 dirs  |-> x.dirs \cup Ancestors(p)]

\* Reference extraction of one entry: create the file where the resolved name
\* stays under dest (and the place is free); skip the entry otherwise.
UnzipOne(x, d, e) ==
    LET p == Resolve(d, e)
    IN IF ~e.dir /\ Under(d, p) /\ CanCreate(x, p) THEN Put(x, p, e.content) ELSE x

RECURSIVE UnzipFrom(_, _, _)
UnzipFrom(x, d, a) == IF a = <<>> THEN x ELSE UnzipFrom(UnzipOne(x, d, Head(a)), d, Tail(a))
MkDest(x, d)  == [x EXCEPT !.dirs = @ \cup Prefixes(d)]
Unzip(x, d, a) == UnzipFrom(MkDest(x, d), d, a)

(* ============== part 2: the sandbox and the enumeration ================= *)

\* The sandbox the harness builds under a fresh temporary directory (= the
\* root <<>> of the model):   /a  /s/a  /s/x/a  are decoy files with known
\* content, /s/x/dest is the destination.  Dest is MaxLen levels deep at least,
\* so no entry name of the bound can climb above the sandbox root.
Dest   == <<"s", "x", "dest">>
Decoy  == -1
DecoyPaths == {<<"a">>, <<"s", "a">>, <<"s", "x", "a">>}
Fs0(destThere) ==
    [files |-> [p \in DecoyPaths |-> Decoy],
     dirs  |-> {<<>>, <<"s">>, <<"s", "x">>} \cup (IF destThere THEN {Dest} ELSE {})]

ASSUME MaxLen <= Len(Dest)

EntryNames == PathsUpTo(Segs, MaxLen)
\* the k-th entry of an archive carries content k
Entries(k) == {[slash |-> s, segs |-> q, dir |-> d, content |-> k] :
                 s \in Slashes, q \in EntryNames, d \in DirFlags}

NoTree == [files |-> <<>>, dirs |-> {}]

\* JSON-friendly renderings for the emitted behaviours
FilesOf(fn)   == {[path |-> p, content |-> fn[p]] : p \in DOMAIN fn}
TreeRec(t)    == [op |-> "Tree", files |-> FilesOf(t.files), dirs |-> t.dirs]
EntryRec(e)   == [slash |-> e.slash, segs |-> e.segs, dir |-> e.dir, content |-> e.content]

Init == /\ phase = "init" /\ tree = NoTree /\ sel = <<>> /\ arch = <<>>
        /\ fs = Fs0(FALSE) /\ hist = <<>>

PickTree(t) ==
    /\ phase = "init" /\ phase' = "tree"
    /\ tree' = t
    /\ UNCHANGED <<sel, arch, fs>>
    /\ hist' = <<TreeRec(t)>>

RoundTrip(f, r) ==
    /\ phase = "tree" /\ phase' = "rt"
    /\ sel' = Select(tree, f, r)
    /\ arch' = Zip(tree, f, r)
    /\ fs' = Unzip(fs, Dest, arch')
    /\ UNCHANGED tree
    /\ hist' = Append(hist, [op |-> "RoundTrip", nil |-> f.nil, acc |-> f.acc, rec |-> r,
                             want |-> FilesOf(sel')])

Sandbox(b) ==
    /\ phase = "init" /\ phase' = "ex"
    /\ fs' = MkDest(Fs0(b), Dest)
    /\ UNCHANGED <<tree, sel, arch>>
    /\ hist' = <<[op |-> "Sandbox", destExists |-> b]>>

AddEntry(e) ==
    /\ phase = "ex" /\ Len(arch) < MaxEntries
    /\ arch' = Append(arch, e)
    /\ fs' = UnzipOne(fs, Dest, e)
    /\ UNCHANGED <<phase, tree, sel>>
    /\ hist' = Append(hist, [op |-> "Entry"] @@ EntryRec(e))

NextRT == \/ \E t \in Trees : PickTree(t)
          \/ \E f \in Filters(tree), r \in BOOLEAN : RoundTrip(f, r)
NextEx == \/ \E b \in DestExists : Sandbox(b)
          \/ \E e \in Entries(Len(arch) + 1) : AddEntry(e)

vars   == <<phase, tree, sel, arch, fs, hist>>
SpecRT == Init /\ [][NextRT]_vars
SpecEx == Init /\ [][NextEx]_vars

\* ---- what TLC checks ------------------------------------------------------
FsWellFormed == WellFormed(fs)
\* Unzip(Zip(t, f, r)) = Select(t, f, r), and the round trip stays confined
RoundTripHolds == phase = "rt" => /\ Inside(fs, Dest) = sel
                                  /\ Confined(Fs0(FALSE), fs, Dest)
\* created \subseteq Under(dest), for every archive of the bound
ConfinementHolds == phase = "ex" => Confined(Fs0(FALSE), fs, Dest)
\* Resolve agrees with a direct reading of the name: a name made of plain
\* segments only resolves to dest \o name
ResolvePlain == \A i \in 1 .. Len(arch) :
                   (\A k \in 1 .. Len(arch[i].segs) : arch[i].segs[k] \notin {".", ".."})
                   => Resolve(Dest, arch[i]) = Dest \o arch[i].segs

ViewRT   == <<phase, tree, sel, arch, fs>>
ViewEx   == <<phase, Len(arch), fs>>          \* one state per file-system content
ViewExAll == <<phase, arch, fs>>              \* one state per archive
Emit == EmitHist(hist')
=============================================================================
