------------------------------ MODULE ZipImpl ------------------------------
(* Implementation-shaped model of files.ZipFolder and files.UnzipToFolder    *)
(* (files/files.go), transcribed statement by statement, on top of the       *)
(* contract vocabulary of ZipFs.tla.                                          *)
(*                                                                            *)
(*   ZipFolder:      filepath.Walk in directory-listing order; directories    *)
(*                   are skipped, then the filter, then the non-recursive     *)
(*                   guard; entry name = path[len(srcDir):], i.e. "/" + the    *)
(*                   relative path.                                           *)
(*   UnzipToFolder:  EnsureDirExists(destDir); for each entry: directory      *)
(*                   entries are skipped; the containment test                *)
(*                   Rel(destDir, Join(destDir, name)) is ".." or "../..."     *)
(*                   -> return an error; EnsureDirExists(Join(destDir,         *)
(*                   dir part of name)); os.Create(Join(destDir, name));       *)
(*                   any error returns immediately (entries before it stay     *)
(*                   extracted).                                              *)
(*                                                                            *)
(* TLC checks that this algorithm satisfies the contract of ZipFs.tla:        *)
(*   ImplRoundTrip    for every tree / filter / recursive flag of the bound   *)
(*                    the files below dest are exactly Select(t, f, r), and   *)
(*                    the archive written has one entry per selected file     *)
(*                    named by its relative path;                             *)
(*   ImplConfined     for every archive of the bound nothing outside dest     *)
(*                    changes, whether or not extraction stopped.             *)
(* It is also the test generator: every transition is emitted as a behaviour  *)
(* (the tree + one filter/flag combination; a shortest archive reaching a     *)
(* file-system state + one more entry).  Fields named impl_* are predictions  *)
(* of THIS model (compared for drift only); `want` is the contract's answer.  *)
EXTENDS ZipFs

VARIABLE stopped    \* UnzipToFolder returned an error (extraction is over)

\* ---- ZipFolder -------------------------------------------------------------
\* every node filepath.Walk visits below the source directory, in its order
AllDirs(t)   == (UNION {Ancestors(p) : p \in DOMAIN t.files \cup t.dirs} \cup t.dirs) \ {<<>>}
WalkOrder(t) == SortPaths(AllDirs(t) \cup DOMAIN t.files)

RECURSIVE WalkFrom(_, _, _, _, _)
WalkFrom(t, f, r, nodes, out) ==
    IF nodes = <<>> THEN out
    ELSE LET p == Head(nodes)
             rest == Tail(nodes)
         IN IF p \notin DOMAIN t.files THEN WalkFrom(t, f, r, rest, out)            \* info.IsDir()
            ELSE IF ~f.nil /\ p \notin f.acc THEN WalkFrom(t, f, r, rest, out)      \* testFunc(path)
            ELSE IF ~r /\ Front(p) # <<>> THEN WalkFrom(t, f, r, rest, out)         \* dir != srcDir
            ELSE WalkFrom(t, f, r, rest,
                          Append(out, [slash |-> TRUE, segs |-> p, dir |-> FALSE,   \* path[len(srcDir):]
                                       content |-> t.files[p]]))
ZipFolder(t, f, r) == WalkFrom(t, f, r, WalkOrder(t), <<>>)

\* ---- UnzipToFolder ---------------------------------------------------------
\* files.EnsureDirExists(d): os.Open(d) succeeds when d exists - as a directory
\* OR as a regular file; a regular file on the way is an error (ENOTDIR is not
\* IsNotExist); otherwise os.MkdirAll(d).
EnsureDir(x, d) ==
    IF d \in x.dirs \/ d \in DOMAIN x.files THEN [fs |-> x, err |-> FALSE]
    ELSE IF \E a \in Ancestors(d) : a \in DOMAIN x.files THEN [fs |-> x, err |-> TRUE]
    ELSE [fs |-> [x EXCEPT !.dirs = @ \cup Prefixes(d)], err |-> FALSE]

\* os.Create(p): truncates/creates a regular file; fails on a directory and
\* when a path component is a regular file
CreateFile(x, p, c) ==
    IF p \in x.dirs \/ \E a \in Ancestors(p) : a \in DOMAIN x.files
    THEN [fs |-> x, err |-> TRUE]
    ELSE [fs |-> [x EXCEPT !.files = [q \in DOMAIN x.files \cup {p} |-> IF q = p THEN c ELSE x.files[q]]],
          err |-> FALSE]

\* one iteration of the loop over the archive
UnzipEntry(x, e) ==
    IF e.dir THEN [fs |-> x, err |-> FALSE]                                         \* continue
    ELSE LET target == Resolve(Dest, e)                                             \* Join(destDir, z.Name)
         IN IF ~(target = Dest \/ Under(Dest, target))                              \* rel == ".." or "../..."
            THEN [fs |-> x, err |-> TRUE]
            ELSE LET ed == EnsureDir(x, CleanOn(Dest, Front(e.segs)))               \* Join(destDir, partPath)
                 IN IF ed.err THEN ed ELSE CreateFile(ed.fs, target, e.content)

RECURSIVE UnzipLoop(_, _)
UnzipLoop(x, a) ==
    IF a = <<>> THEN [fs |-> x, err |-> FALSE]
    ELSE LET s == UnzipEntry(x, Head(a))
         IN IF s.err THEN s ELSE UnzipLoop(s.fs, Tail(a))
UnzipToFolder(x, a) == UnzipLoop(MkDest(x, Dest), a)

\* ---- enumeration -----------------------------------------------------------
NameRec(e) == [slash |-> e.slash, segs |-> e.segs]

InitI == Init /\ stopped = FALSE

PickTreeI(t) == PickTree(t) /\ UNCHANGED stopped

RoundTripI(f, r) ==
    /\ phase = "tree" /\ phase' = "rt"
    /\ sel' = Select(tree, f, r)                    \* the contract's answer
    /\ arch' = ZipFolder(tree, f, r)
    /\ LET u == UnzipToFolder(fs, arch')
       IN fs' = u.fs /\ stopped' = u.err
    /\ UNCHANGED tree
    /\ hist' = Append(hist, [op |-> "RoundTrip", nil |-> f.nil, acc |-> f.acc, rec |-> r,
                             want |-> FilesOf(sel'),
                             impl_entries |-> [i \in 1 .. Len(arch') |-> NameRec(arch'[i])]])

SandboxI(b) == Sandbox(b) /\ UNCHANGED stopped

AddEntryI(e) ==
    /\ phase = "ex" /\ ~stopped /\ Len(arch) < MaxEntries
    /\ arch' = Append(arch, e)
    /\ LET s == UnzipEntry(fs, e)
       IN /\ fs' = s.fs /\ stopped' = s.err
          /\ hist' = Append(hist, [op |-> "Entry", impl_err |-> s.err,
                                   impl_in |-> FilesOf(Inside(s.fs, Dest))] @@ EntryRec(e))
    /\ UNCHANGED <<phase, tree, sel>>

NextRTI == \/ \E t \in Trees : PickTreeI(t)
           \/ \E f \in Filters(tree), r \in BOOLEAN : RoundTripI(f, r)
NextExI == \/ \E b \in DestExists : SandboxI(b)
           \/ \E e \in Entries(Len(arch) + 1) : AddEntryI(e)

varsI   == <<phase, tree, sel, arch, fs, hist, stopped>>
SpecRTI == InitI /\ [][NextRTI]_varsI
SpecExI == InitI /\ [][NextExI]_varsI

\* ---- the algorithm satisfies the contract ----------------------------------
ImplWellFormed == WellFormed(fs)

\* the archive holds exactly one file entry per selected file, named by its
\* relative path ("entry name = path relative to the source dir")
ArchiveIsSelection ==
    /\ \A i \in 1 .. Len(arch) : ~arch[i].dir /\ arch[i].segs \in DOMAIN sel
                                 /\ arch[i].content = sel[arch[i].segs]
    /\ \A p \in DOMAIN sel : \E i \in 1 .. Len(arch) : arch[i].segs = p
    /\ \A i, j \in 1 .. Len(arch) : arch[i].segs = arch[j].segs => i = j

ImplRoundTrip == phase = "rt" => /\ ~stopped
                                 /\ ArchiveIsSelection
                                 /\ Inside(fs, Dest) = sel            \* RoundTripOK
                                 /\ Confined(Fs0(FALSE), fs, Dest)
ImplConfined  == phase = "ex" => Confined(Fs0(FALSE), fs, Dest)
\* the repaired check is not too strict either: an entry with a plain name
\* (no "." / ".." segment) whose place is free is never refused
Plain(q) == \A k \in 1 .. Len(q) : q[k] \notin {".", ".."}
NoSpuriousRefusal ==
    (phase = "ex" /\ stopped /\ arch # <<>>) =>
        LET e == arch[Len(arch)]
        IN ~(Plain(e.segs) /\ CanCreate(fs, Resolve(Dest, e)))

ViewRTI    == <<phase, tree, sel, arch, fs, stopped>>
ViewExI    == <<phase, Len(arch), fs, stopped>>     \* one state per file-system content
ViewExAllI == <<phase, arch, fs, stopped>>          \* one state per archive
=============================================================================
