------------------------------ MODULE ZipTrace ------------------------------
(* Trace validation for C20 (code -> spec).  The driver (vh drive zipfs) runs *)
(* the real files.ZipFolder / files.UnzipToFolder on seeded random trees and   *)
(* on random hostile archives and records what it put in and what it found     *)
(* on disk afterwards; this module consumes one line per step and a line is    *)
(* consumed only if the contract of ZipFs.tla allows it.  Names are name-ids    *)
(* ("n17"; "." and ".." stay themselves), contents are hash-ids.                *)
(*                                                                            *)
(* Round-trip trace:                                                           *)
(*   Tree                      a new source tree starts                        *)
(*   File  path h acc          a regular file of the tree; acc = what the       *)
(*                             filter answers for it                           *)
(*   Dir   path                a directory of the tree (possibly empty)        *)
(*   Zip   nil rec             ZipFolder(src, zip, filter-or-nil, rec) and      *)
(*                             UnzipToFolder(zip, dest) were run               *)
(*   Out   kind path h         an object found below dest (not a directory)    *)
(*   End                       nothing else was found                          *)
(* Accepted iff every Out is a selected file with the content it had in the     *)
(* source (ZipFs!Select), no Out repeats, and at End none is missing.           *)
(*                                                                            *)
(* Extraction trace:                                                           *)
(*   Sandbox dest              a sandbox; dest = path of the destination        *)
(*   Entry   slash segs dir    an entry of the archive (archive/zip directly)   *)
(*   Changed how path          after UnzipToFolder: an object of the sandbox    *)
(*                             that was created / modified / removed            *)
(*   Done                                                                      *)
(* Accepted iff every change lies under dest (ZipFs!Under), or is the creation  *)
(* of the directory dest itself.                                                *)
EXTENDS TraceLib, FiniteSets

VARIABLES mode,   \* "idle" | "build" | "out" | "ex"
          src,    \* path -> hash-id of the source files
          acc,    \* paths the filter accepts
          want,   \* Select(src, filter, recursive) once Zip was seen
          seen,   \* paths reported by Out so far
          dest,   \* destination path of the current sandbox
          l       \* next line of the trace

ZF == INSTANCE ZipFs WITH
        NNames <- 0, Contents <- {}, MaxDepth <- 0, MaxFiles <- 0, MaxDirs <- 0,
        Segs <- {}, MaxLen <- 0, MaxEntries <- 0, Slashes <- {}, DirFlags <- {}, DestExists <- {},
        phase <- "", tree <- <<>>, sel <- <<>>, arch <- <<>>, fs <- <<>>, hist <- <<>>

Ev == Trace[l]
Is(op) == l <= Len(Trace) /\ Ev.op = op

Init == /\ mode = "idle" /\ src = <<>> /\ acc = {} /\ want = <<>> /\ seen = {}
        /\ dest = <<>> /\ l = 1

Tree == /\ Is("Tree")
        /\ mode' = "build" /\ src' = <<>> /\ acc' = {} /\ want' = <<>> /\ seen' = {}
        /\ UNCHANGED dest

File == /\ Is("File") /\ mode = "build"
        /\ Ev.path \notin DOMAIN src
        /\ src' = [p \in DOMAIN src \cup {Ev.path} |-> IF p = Ev.path THEN Ev.h ELSE src[p]]
        /\ acc' = IF Ev.acc THEN acc \cup {Ev.path} ELSE acc
        /\ UNCHANGED <<mode, want, seen, dest>>

Dir == /\ Is("Dir") /\ mode = "build"
       /\ UNCHANGED <<mode, src, acc, want, seen, dest>>

Zip == /\ Is("Zip") /\ mode = "build"
       /\ want' = ZF!Select([files |-> src, dirs |-> {}], [nil |-> Ev.nil, acc |-> acc], Ev.rec)
       /\ mode' = "out"
       /\ UNCHANGED <<src, acc, seen, dest>>

\* "... and nothing else": an object below dest must be a selected regular
\* file, at its relative path, with its content
Out == /\ Is("Out") /\ mode = "out"
       /\ Ev.kind = "file"
       /\ Ev.path \in DOMAIN want
       /\ want[Ev.path] = Ev.h
       /\ Ev.path \notin seen
       /\ seen' = seen \cup {Ev.path}
       /\ UNCHANGED <<mode, src, acc, want, dest>>

\* "reproduces every regular file ... that the filter and the flag select"
End == /\ Is("End") /\ mode = "out"
       /\ seen = DOMAIN want
       /\ mode' = "idle"
       /\ UNCHANGED <<src, acc, want, seen, dest>>

Sandbox == /\ Is("Sandbox")
           /\ mode' = "ex" /\ dest' = Ev.dest
           /\ UNCHANGED <<src, acc, want, seen>>

Entry == /\ Is("Entry") /\ mode = "ex"
         /\ UNCHANGED <<mode, src, acc, want, seen, dest>>

\* "creates or modifies files only inside the destination directory"
Changed == /\ Is("Changed") /\ mode = "ex"
           /\ \/ ZF!Under(dest, Ev.path)
              \/ Ev.how = "mkdir" /\ Ev.path = dest
           /\ UNCHANGED <<mode, src, acc, want, seen, dest>>

Done == /\ Is("Done") /\ mode = "ex"
        /\ mode' = "idle"
        /\ UNCHANGED <<src, acc, want, seen, dest>>

Next == /\ \/ Tree \/ File \/ Dir \/ Zip \/ Out \/ End
           \/ Sandbox \/ Entry \/ Changed \/ Done
        /\ l' = l + 1
Spec == Init /\ [][Next]_<<mode, src, acc, want, seen, dest, l>>
Accepted == AcceptByDiameter
=============================================================================
